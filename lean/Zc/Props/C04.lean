import Zc.Proofs.BrowserCb
import Zc.Props.C06
/-! # C04 — browser callbacks alternate add/remove and always match the cache

`Browser` (`Zc/Model/BrowserCb.lean`) is the callback side of `_ServiceBrowserBase`: the pending-callback
dict with `_enqueue_callback`'s precedence test (generated leaf), `async_update_records`,
`async_update_records_complete`, run by the record manager of C06 (`Browser.onDatagram`) and by the
periodic purge (`Browser.onPurge`).  `str.lower` and `possible_types` are arbitrary functions in the
theorems (`lower`, `possible`); the driver instantiates them with ASCII lowering and the model of
`possible_types`.

Proved for all inputs: the order-independent outcome of the pending-callback dedup
(`C04_enqueue_precedence`, `C04_pending_outcome`), that callbacks are delivered only once the cache holds
the triggering records (`C04_after_cache`), and that for a well-formed datagram the Added/Removed
callbacks are exactly the changes of the cache's pointer records (`C04_datagram_exact`).  The two
history-level statements (`C04_alternates`, `C04_live_eq_cache`) are stated in full and **not proved**
here (see `C04_history_partial` at the end for what is proved towards them and what is missing). -/
namespace Zc

section
variable (lower : String → String) (possible : String → List String)

/-- **C04 (dedup precedence).**  `_enqueue_callback` on the key it is called with: Added always wins, Removed
replaces anything but a pending Added, Updated is recorded only when nothing is pending; every other key is
left alone. -/
theorem C04_enqueue_precedence (b : Browser) (ch : Change) (t n : String) :
    pendingGet (b.enqueue ch t n).pending (n, t) =
      (match ch, pendingGet b.pending (n, t) with
      | .added, _ => some .added
      | .removed, some .added => some .added
      | .removed, _ => some .removed
      | .updated, none => some .updated
      | .updated, some x => some x)
    ∧ ∀ k, k ≠ (n, t) → pendingGet (b.enqueue ch t n).pending k = pendingGet b.pending k :=
  ⟨Browser.pendingGet_enqueue_self b ch t n, fun _ hk => Browser.pendingGet_enqueue_ne b ch t n hk⟩

/-- **C04 (outcome of one batch, whatever the order).**  After `async_update_records` on any list of record
updates, starting with nothing pending: an Added is pending under `(name, type)` iff some update announces an
uncached pointer record with that alias under a browsed type matching its owner name; a Removed is pending iff
no Added is and some update withdraws (TTL elapsed) a cached pointer record with that alias.  SRV/TXT/address
updates only ever contribute Updated and never disturb a pending Added or Removed. -/
theorem C04_pending_outcome (b : Browser) (hb : b.pending = []) (c : Cache) (now : Ms)
    (us : List (Rec × Option Rec)) (k : String × String) :
    let b' := Browser.updateRecords lower possible c now b us
    (pendingGet b'.pending k = some .added ↔ ∃ u ∈ us, Browser.AddsAt possible b.types u k)
    ∧ (pendingGet b'.pending k = some .removed ↔
        (¬ ∃ u ∈ us, Browser.AddsAt possible b.types u k) ∧ ∃ u ∈ us, Browser.RemsAt possible now b.types u k) := by
  have h := Browser.updateRecords_AR lower possible (b := b) rfl c now us k
  have hA : ¬ Browser.A b k := by simp [Browser.A, hb, pendingGet]
  have hR : ¬ Browser.R b k := by simp [Browser.R, hb, pendingGet]
  simp only [hA, hR, false_or] at h
  intro b'
  refine ⟨h.1, ?_⟩
  have h2 := h.2
  rw [h.1] at h2
  exact h2

/-- the callbacks fired by `async_update_records_complete` are the pending dict, entry by entry -/
theorem mem_complete_iff (b : Browser) (hn : (pendingKeys b.pending).Nodup) (cb : Callback) :
    cb ∈ (Browser.complete b).2 ↔ pendingGet b.pending (cb.name, cb.type) = some cb.change := by
  unfold Browser.complete
  simp only [List.mem_map]
  constructor
  · rintro ⟨kv, hkv, rfl⟩
    exact pendingGet_of_mem _ hn hkv
  · intro h
    exact ⟨((cb.name, cb.type), cb.change), mem_of_pendingGet _ h, rfl⟩

/-- **C04 (callbacks come after the cache update).**  After any history, when a datagram makes a browser with
nothing pending deliver `add_service(type, name)`, the triggering pointer record — a record of the datagram with
that alias, a non-zero TTL and an owner name matching the browsed type — is already in the cache, stamped with
the arrival time: a lookup from inside the callback sees it.  (Callbacks are produced only by
`async_update_records_complete`, whose cache is the datagram's post-state; the datagram is processed without
raising.) -/
theorem C04_after_cache (evs : List Event) (b : Browser) (hb : b.pending = []) (now : Ms) (recs : List Rec) :
    ∃ o, Browser.onDatagram lower possible (cacheAfter lower evs) b now recs = .ok o
      ∧ ∀ cb ∈ o.callbacks, cb.change = .added →
          ∃ r ∈ recs, r.type = 12 ∧ r.rdata = .ptr cb.name ∧ r.ttl ≠ 0
            ∧ cb.type ∈ b.types.filter (fun t => (possible r.name).contains t)
            ∧ ∃ e, o.cache.getUnique lower r = some e ∧ e.created = now := by
  obtain ⟨out, hout, _, _, hcalls⟩ := C06_calls lower evs now recs
  obtain ⟨out', hout', hpost⟩ := C06_post_state lower evs now recs
  have : out' = out := by rw [hout] at hout'; exact (Except.ok.inj hout').symm
  subst this
  have href := ((Refines.empty lower).runEvents (by simp [Flat.WF]) evs).1
  unfold Browser.onDatagram
  rw [hout]
  simp only [bind, Except.bind]
  cases hc1 : out'.call1 with
  | none => exact ⟨_, rfl, fun cb hcb => by cases hcb⟩
  | some call =>
    refine ⟨_, rfl, ?_⟩
    simp only []
    intro cb hcb hadd
    obtain ⟨hpairs, hsnap⟩ := hcalls call.1 call.2 (by rw [hc1])
    have hgood : Browser.Good b.types (Browser.updateRecords lower possible call.2 now b call.1) :=
      Browser.good_updateRecords lower possible ⟨rfl, by simp [hb, pendingKeys]⟩ _ _ _
    rw [mem_complete_iff _ hgood.2, hadd] at hcb
    have hout := (C04_pending_outcome lower possible b hb call.2 now call.1 (cb.name, cb.type)).1.1 hcb
    obtain ⟨u, hu, hty, hold, hrd, hmatch⟩ := hout
    rw [hpairs, List.mem_filterMap] at hu
    obtain ⟨r, hr, hup⟩ := hu
    unfold updatePair at hup
    split at hup
    · rename_i hcond
      simp only [Option.some.injEq] at hup
      subst hup
      simp only [] at hty hold hrd hmatch
      -- not cached before the datagram
      have hnc : (cacheAfter lower evs).getUnique lower r = none := by
        have hs := hsnap (asStored now r)
        have hcongr : (cacheAfter lower evs).getUnique lower (asStored now r) = (cacheAfter lower evs).getUnique lower r := by
          unfold cacheAfter
          rw [href.getUnique, href.getUnique]
          exact Flat.getUnique_congr _ (ident_asStored now r)
        rw [hcongr] at hs
        cases hb0 : (cacheAfter lower evs).getUnique lower r with
        | none => rfl
        | some e0 =>
          rw [hb0] at hs
          obtain ⟨e', he', _⟩ := hs
          rw [he'] at hold; cases hold
      have httl : r.ttl ≠ 0 := by
        rcases hcond with h | h
        · exact h
        · rw [hnc] at h; cases h
      refine ⟨r, hr, by rw [← typePtr_eq]; exact hty, hrd, httl, hmatch, ?_⟩
      have hp := hpost r
      unfold PostState at hp
      rw [hnc] at hp
      simp only [] at hp
      have hne : (copiesOf lower recs r).filter (fun x => decide (x.ttl ≠ 0)) ≠ [] := by
        intro hnil
        have : r ∈ (copiesOf lower recs r).filter (fun x => decide (x.ttl ≠ 0)) := by
          rw [List.mem_filter, copiesOf, List.mem_filter]
          exact ⟨⟨hr, by simp⟩, by simp [httl]⟩
        rw [hnil] at this; cases this
      cases hl : lastLive lower recs r with
      | none => exact absurd (List.getLast?_eq_none_iff.1 hl) hne
      | some r' =>
        rw [hl] at hp
        exact ⟨_, hp, rfl⟩
    · cases hup

/-! ### one well-formed datagram: callbacks = changes of the cached pointer records -/

/-- the quantifier's restriction on the browsed types: a type matches only itself among the browsed types
(not sub/super-types of one another), and no two differ only in letter case -/
structure WFTypes (types : List String) : Prop where
  exact : ∀ t ∈ types, types.filter (fun t' => (possible t).contains t') = [t]
  caseDistinct : ∀ t ∈ types, ∀ t' ∈ types, lower t = lower t' → t = t'

/-- the quantifier's restriction on a datagram: every type-PTR record is a pointer record of class IN whose
owner name is exactly a browsed type, and no two aliases differ only in letter case -/
structure WFDatagram (types : List String) (recs : List Rec) : Prop where
  ptr : ∀ r ∈ recs, r.type = 12 → (∃ a, r.rdata = .ptr a) ∧ r.class_ = 1 ∧ r.name ∈ types
  oneSpelling : ∀ r ∈ recs, ∀ r' ∈ recs, ∀ a a', r.rdata = .ptr a → r'.rdata = .ptr a' → lower a = lower a' → a = a'

/-- the pointer record `type → alias` (class IN), as a lookup probe -/
def ptrRec (t a : String) : Rec := ⟨t, 12, 1, false, 0, 0, .ptr a⟩

variable {lower}

theorem Cache.getUnique_congr (c : Cache) {r r' : Rec} (h : r.ident lower = r'.ident lower) :
    c.getUnique lower r = c.getUnique lower r' := by
  unfold Cache.getUnique Bucket.lookup
  rw [ident_name lower h]
  congr 1; funext b; congr 1; funext e
  rw [beq_eq_decide, beq_eq_decide, h]

theorem ident_ptrRec_of {r : Rec} {t a a' : String} (hty : r.type = 12) (hc : r.class_ = 1) (hn : r.name = t)
    (hrd : r.rdata = .ptr a') (hl : lower a' = lower a) : r.ident lower = (ptrRec t a).ident lower := by
  simp [Rec.ident, Rec.specIdent, ptrRec, hty, hc, hn, hrd, RData.kind, RData.ident, hl]

theorem of_ident_ptrRec {r : Rec} {t a : String} (h : r.ident lower = (ptrRec t a).ident lower) :
    r.type = 12 ∧ r.class_ = 1 ∧ lower r.name = lower t ∧ ((∃ a', r.rdata = .ptr a' ∧ lower a' = lower a) ∨ ¬ ∃ a', r.rdata = .ptr a') := by
  have h1 := ident_type lower h
  have h2 := ident_class lower h
  have h3 := ident_name lower h
  refine ⟨h1, h2, h3, ?_⟩
  cases hrd : r.rdata with
  | ptr a' =>
    left
    simp only [Rec.ident, Rec.specIdent, ptrRec, hrd, RData.ident, Prod.mk.injEq, RData.ptr.injEq] at h
    exact ⟨a', rfl, h.2.2.2.2⟩
  | _ => right; rintro ⟨a', ha'⟩; cases ha'

variable (lower)

/-- **C04 (one datagram, exact).**  After any history, for a browser with nothing pending whose browsed types
and the arriving datagram satisfy the quantifier's restrictions: the datagram is processed without raising, and
for every browsed type `t` and instance `a` (compared case-insensitively)
* `add_service(t, a)` is delivered iff the pointer record `t → a` was not cached before the datagram and is
  cached after it;
* `remove_service(t, a)` is delivered iff it was cached before and is not cached after;
* at most one Added/Removed callback is delivered per (type, instance).
So within a datagram the callbacks are exactly the changes of the cache's pointer-record set. -/
theorem C04_datagram_exact (evs : List Event) (b : Browser) (hb : b.pending = [])
    (hwt : WFTypes lower possible b.types) (now : Ms) (recs : List Rec) (hwd : WFDatagram lower b.types recs) :
    ∃ o, Browser.onDatagram lower possible (cacheAfter lower evs) b now recs = .ok o
      ∧ (∀ t ∈ b.types, ∀ a : String,
          ((∃ cb ∈ o.callbacks, cb.change = .added ∧ cb.type = t ∧ lower cb.name = lower a)
              ↔ ((cacheAfter lower evs).getUnique lower (ptrRec t a) = none ∧ (o.cache.getUnique lower (ptrRec t a)).isSome = true))
          ∧ ((∃ cb ∈ o.callbacks, cb.change = .removed ∧ cb.type = t ∧ lower cb.name = lower a)
              ↔ (((cacheAfter lower evs).getUnique lower (ptrRec t a)).isSome = true ∧ o.cache.getUnique lower (ptrRec t a) = none)))
      ∧ (∀ cb ∈ o.callbacks, ∀ cb' ∈ o.callbacks, cb.change ≠ .updated → cb'.change ≠ .updated →
          cb.type = cb'.type → lower cb.name = lower cb'.name → cb = cb') := by
  obtain ⟨out, hout, _, hnone, hcalls⟩ := C06_calls lower evs now recs
  obtain ⟨out', hout', hpost⟩ := C06_post_state lower evs now recs
  have : out' = out := by rw [hout] at hout'; exact (Except.ok.inj hout').symm
  subst this
  unfold Browser.onDatagram
  rw [hout]
  simp only [bind, Except.bind]
  cases hc1 : out'.call1 with
  | none =>
    refine ⟨_, rfl, ?_, fun cb hcb => by cases hcb⟩
    have hall := hnone.1 hc1
    intro t ht a
    have hp := hpost (ptrRec t a)
    have hcop : ∀ r ∈ copiesOf lower recs (ptrRec t a), r.ttl = 0 ∧ (cacheAfter lower evs).getUnique lower (ptrRec t a) = none := by
      intro r hr
      have hr' := List.mem_filter.1 hr
      have := hall r hr'.1
      exact ⟨this.1, by rw [← Cache.getUnique_congr _ (of_decide_eq_true hr'.2)]; exact this.2⟩
    have hlive : lastLive lower recs (ptrRec t a) = none := by
      unfold lastLive
      rw [List.getLast?_eq_none_iff, List.filter_eq_nil_iff]
      intro r hr; simp [(hcop r hr).1]
    simp only [List.not_mem_nil, false_and, exists_false, false_iff, not_and]
    unfold PostState at hp
    cases hb0 : (cacheAfter lower evs).getUnique lower (ptrRec t a) with
    | none =>
      rw [hb0, hlive] at hp
      simp only [Option.map_none] at hp
      simp [hp]
    | some e =>
      rw [hb0] at hp
      simp only [] at hp
      have hng : hasGoodbye lower recs (ptrRec t a) = false := by
        rw [Bool.eq_false_iff]; intro hg
        obtain ⟨r, hr, _⟩ := List.any_eq_true.1 hg
        have := (hcop r hr).2
        rw [hb0] at this; cases this
      rw [hng] at hp
      simp only [Bool.false_eq_true, if_false] at hp
      obtain ⟨e', he', _⟩ := hp
      simp [he']
  | some call =>
    obtain ⟨hpairs, hsnap⟩ := hcalls call.1 call.2 (by rw [hc1])
    have hgood : Browser.Good b.types (Browser.updateRecords lower possible call.2 now b call.1) :=
      Browser.good_updateRecords lower possible ⟨rfl, by simp [hb, pendingKeys]⟩ _ _ _
    have hpend := fun k => C04_pending_outcome lower possible b hb call.2 now call.1 k
    -- the pairs, record by record
    have hpair : ∀ u, u ∈ call.1 ↔ ∃ r ∈ recs, (r.ttl ≠ 0 ∨ ((cacheAfter lower evs).getUnique lower r).isSome = true)
        ∧ u = (asStored now r, call.2.getUnique lower (asStored now r)) := by
      intro u
      rw [hpairs, List.mem_filterMap]
      constructor
      · rintro ⟨r, hr, hup⟩
        unfold updatePair at hup
        split at hup
        · rename_i hcond; exact ⟨r, hr, hcond, (Option.some.inj hup).symm⟩
        · cases hup
      · rintro ⟨r, hr, hcond, rfl⟩
        exact ⟨r, hr, by unfold updatePair; rw [if_pos hcond]⟩
    -- `old` is none exactly for records that were not cached
    have hold : ∀ r, call.2.getUnique lower (asStored now r) = none ↔ (cacheAfter lower evs).getUnique lower r = none := by
      intro r
      have hs := hsnap (asStored now r)
      rw [Cache.getUnique_congr (cacheAfter lower evs) (ident_asStored (lower := lower) now r)] at hs
      cases hb0 : (cacheAfter lower evs).getUnique lower r with
      | none => rw [hb0] at hs; simp [hs]
      | some e0 => rw [hb0] at hs; obtain ⟨e', he', _⟩ := hs; simp [he']
    -- adds and removes at a key, in terms of the datagram
    have hadds : ∀ n t, (∃ u ∈ call.1, Browser.AddsAt possible b.types u (n, t)) ↔
        ∃ r ∈ recs, r.type = 12 ∧ r.rdata = .ptr n ∧ r.name = t ∧ r.ttl ≠ 0 ∧ (cacheAfter lower evs).getUnique lower r = none := by
      intro n t
      constructor
      · rintro ⟨u, hu, hty, ho, hrd, hm⟩
        obtain ⟨r, hr, hcond, rfl⟩ := (hpair u).1 hu
        simp only [] at hty ho hrd hm
        have hty' : r.type = 12 := by rw [← typePtr_eq]; exact hty
        have hnc := (hold r).1 ho
        have hnm : r.name = t := by
          have := hwt.exact r.name (hwd.ptr r hr hty').2.2
          change t ∈ b.types.filter (fun t' => (possible r.name).contains t') at hm
          rw [this] at hm; exact (List.mem_singleton.1 hm).symm
        refine ⟨r, hr, hty', hrd, hnm, ?_, hnc⟩
        rcases hcond with h | h
        · exact h
        · rw [hnc] at h; cases h
      · rintro ⟨r, hr, hty, hrd, hnm, httl, hnc⟩
        refine ⟨_, (hpair _).2 ⟨r, hr, Or.inl httl, rfl⟩, by rw [typePtr_eq]; exact hty, (hold r).2 hnc, hrd, ?_⟩
        change t ∈ b.types.filter (fun t' => (possible r.name).contains t')
        rw [hwt.exact r.name (hwd.ptr r hr hty).2.2]; simp [hnm]
    have hrems : ∀ n t, (∃ u ∈ call.1, Browser.RemsAt possible now b.types u (n, t)) ↔
        ∃ r ∈ recs, r.type = 12 ∧ r.rdata = .ptr n ∧ r.name = t ∧ r.ttl = 0 ∧ ((cacheAfter lower evs).getUnique lower r).isSome = true := by
      intro n t
      constructor
      · rintro ⟨u, hu, hty, ho, hx, hrd, hm⟩
        obtain ⟨r, hr, hcond, rfl⟩ := (hpair u).1 hu
        simp only [] at hty ho hrd hm hx
        have hty' : r.type = 12 := by rw [← typePtr_eq]; exact hty
        have hz : r.ttl = 0 := by rw [isExpired_asStored] at hx; exact of_decide_eq_true hx
        have hnm : r.name = t := by
          have := hwt.exact r.name (hwd.ptr r hr hty').2.2
          change t ∈ b.types.filter (fun t' => (possible r.name).contains t') at hm
          rw [this] at hm; exact (List.mem_singleton.1 hm).symm
        refine ⟨r, hr, hty', hrd, hnm, hz, ?_⟩
        cases hb0 : (cacheAfter lower evs).getUnique lower r with
        | none => exact absurd ((hold r).2 hb0) ho
        | some _ => rfl
      · rintro ⟨r, hr, hty, hrd, hnm, hz, hc⟩
        refine ⟨_, (hpair _).2 ⟨r, hr, Or.inr hc, rfl⟩, by rw [typePtr_eq]; exact hty, ?_, ?_, hrd, ?_⟩
        · intro hn; rw [(hold r).1 hn] at hc; cases hc
        · simp only []; rw [isExpired_asStored]; simp [hz]
        · change t ∈ b.types.filter (fun t' => (possible r.name).contains t')
          rw [hwt.exact r.name (hwd.ptr r hr hty).2.2]; simp [hnm]
    refine ⟨_, rfl, ?_, ?_⟩
    · intro t ht a
      simp only []
      have hp := hpost (ptrRec t a)
      unfold PostState at hp
      -- shape of a datagram record with the probe's identity
      have hshape : ∀ r ∈ recs, r.ident lower = (ptrRec t a).ident lower →
          r.type = 12 ∧ r.name = t ∧ ∃ a', r.rdata = .ptr a' ∧ lower a' = lower a := by
        intro r hr hid
        obtain ⟨h1, h2, h3, h4⟩ := of_ident_ptrRec hid
        obtain ⟨⟨a0, ha0⟩, _, hnt⟩ := hwd.ptr r hr h1
        refine ⟨h1, hwt.caseDistinct _ hnt _ ht h3, ?_⟩
        rcases h4 with h4 | h4
        · exact h4
        · exact absurd ⟨a0, ha0⟩ h4
      constructor
      · constructor
        · rintro ⟨cb, hcb, hch, hct, hcn⟩
          rw [mem_complete_iff _ hgood.2, hch] at hcb
          obtain ⟨r, hr, hty, hrd, hnm, httl, hnc⟩ := (hadds cb.name cb.type).1 ((hpend (cb.name, cb.type)).1.1 hcb)
          have hid : r.ident lower = (ptrRec t a).ident lower :=
            ident_ptrRec_of hty (hwd.ptr r hr hty).2.1 (hnm.trans hct) hrd hcn
          rw [← Cache.getUnique_congr _ hid, ← Cache.getUnique_congr _ hid]
          refine ⟨hnc, ?_⟩
          have hp' := hpost r
          unfold PostState at hp'
          rw [hnc] at hp'
          simp only [] at hp'
          have hne : (copiesOf lower recs r).filter (fun x => decide (x.ttl ≠ 0)) ≠ [] := by
            intro hnil
            have : r ∈ (copiesOf lower recs r).filter (fun x => decide (x.ttl ≠ 0)) := by
              rw [List.mem_filter, copiesOf, List.mem_filter]
              exact ⟨⟨hr, by simp⟩, by simp [httl]⟩
            rw [hnil] at this; cases this
          cases hl : lastLive lower recs r with
          | none => exact absurd (List.getLast?_eq_none_iff.1 hl) hne
          | some r' => rw [hl] at hp'; rw [hp']; rfl
        · rintro ⟨hbn, haft⟩
          rw [hbn] at hp
          simp only [] at hp
          cases hl : lastLive lower recs (ptrRec t a) with
          | none => rw [hl] at hp; rw [hp] at haft; cases haft
          | some r =>
            have hmem : r ∈ (copiesOf lower recs (ptrRec t a)).filter (fun x => decide (x.ttl ≠ 0)) := List.mem_of_getLast? hl
            rw [List.mem_filter, copiesOf, List.mem_filter] at hmem
            obtain ⟨⟨hr, hid⟩, httl⟩ := hmem
            have hid' := of_decide_eq_true hid
            obtain ⟨hty, hnm, a', hrd, hla⟩ := hshape r hr hid'
            have hnc : (cacheAfter lower evs).getUnique lower r = none := by rw [Cache.getUnique_congr _ hid']; exact hbn
            have hA := (hpend (a', t)).1.2 ((hadds a' t).2 ⟨r, hr, hty, hrd, hnm, of_decide_eq_true httl, hnc⟩)
            exact ⟨⟨.added, t, a'⟩, (mem_complete_iff _ hgood.2 _).2 hA, rfl, rfl, hla⟩
      · constructor
        · rintro ⟨cb, hcb, hch, hct, hcn⟩
          rw [mem_complete_iff _ hgood.2, hch] at hcb
          obtain ⟨r, hr, hty, hrd, hnm, hz, hc⟩ := (hrems cb.name cb.type).1 ((hpend (cb.name, cb.type)).2.1 hcb).2
          have hid : r.ident lower = (ptrRec t a).ident lower :=
            ident_ptrRec_of hty (hwd.ptr r hr hty).2.1 (hnm.trans hct) hrd hcn
          rw [← Cache.getUnique_congr _ hid, ← Cache.getUnique_congr _ hid]
          refine ⟨hc, ?_⟩
          have hp' := hpost r
          unfold PostState at hp'
          cases hb0 : (cacheAfter lower evs).getUnique lower r with
          | none => rw [hb0] at hc; cases hc
          | some e0 =>
            rw [hb0] at hp'
            simp only [] at hp'
            have hg : hasGoodbye lower recs r = true := by
              unfold hasGoodbye copiesOf
              exact List.any_eq_true.2 ⟨r, List.mem_filter.2 ⟨hr, by simp⟩, by simp [hz]⟩
            rw [hg] at hp'
            simpa using hp'
        · rintro ⟨hbs, haft⟩
          cases hb0 : (cacheAfter lower evs).getUnique lower (ptrRec t a) with
          | none => rw [hb0] at hbs; cases hbs
          | some e0 =>
            rw [hb0] at hp
            simp only [] at hp
            by_cases hg : hasGoodbye lower recs (ptrRec t a) = true
            · obtain ⟨r, hr, hz⟩ := List.any_eq_true.1 hg
              rw [copiesOf, List.mem_filter] at hr
              have hid' := of_decide_eq_true hr.2
              obtain ⟨hty, hnm, a', hrd, hla⟩ := hshape r hr.1 hid'
              have hc : ((cacheAfter lower evs).getUnique lower r).isSome = true := by rw [Cache.getUnique_congr _ hid', hb0]; rfl
              have hrem := (hrems a' t).2 ⟨r, hr.1, hty, hrd, hnm, of_decide_eq_true hz, hc⟩
              have hnoadd : ¬ ∃ u ∈ call.1, Browser.AddsAt possible b.types u (a', t) := by
                intro hadd
                obtain ⟨r', hr', hty', hrd', hnm', _, hnc'⟩ := (hadds a' t).1 hadd
                have hid2 : r'.ident lower = (ptrRec t a).ident lower :=
                  ident_ptrRec_of hty' (hwd.ptr r' hr' hty').2.1 hnm' hrd' hla
                rw [Cache.getUnique_congr _ hid2, hb0] at hnc'
                cases hnc'
              have hR := (hpend (a', t)).2.2 ⟨hnoadd, hrem⟩
              exact ⟨⟨.removed, t, a'⟩, (mem_complete_iff _ hgood.2 _).2 hR, rfl, rfl, hla⟩
            · simp only [hg, Bool.false_eq_true, if_false] at hp
              obtain ⟨e', he', _⟩ := hp
              rw [he'] at haft; cases haft
    · -- at most one Added/Removed per (type, instance)
      intro cb hcb cb' hcb' hne hne' hty hnm
      simp only [] at hcb hcb'
      rw [mem_complete_iff _ hgood.2] at hcb hcb'
      -- both keys come from pointer records of the datagram
      have hsrc : ∀ c : Callback, c.change ≠ .updated → pendingGet (Browser.updateRecords lower possible call.2 now b call.1).pending (c.name, c.type) = some c.change →
          ∃ r ∈ recs, r.rdata = .ptr c.name := by
        intro c hcne hget
        cases hch : c.change with
        | updated => exact absurd hch hcne
        | added =>
          rw [hch] at hget
          obtain ⟨r, hr, _, hrd, _⟩ := (hadds c.name c.type).1 ((hpend (c.name, c.type)).1.1 hget)
          exact ⟨r, hr, hrd⟩
        | removed =>
          rw [hch] at hget
          obtain ⟨r, hr, _, hrd, _⟩ := (hrems c.name c.type).1 ((hpend (c.name, c.type)).2.1 hget).2
          exact ⟨r, hr, hrd⟩
      obtain ⟨r, hr, hrd⟩ := hsrc cb hne hcb
      obtain ⟨r', hr', hrd'⟩ := hsrc cb' hne' hcb'
      have hname : cb.name = cb'.name := hwd.oneSpelling r hr r' hr' _ _ hrd hrd' hnm
      have hchg : cb.change = cb'.change := by
        rw [hname, hty, hcb'] at hcb
        exact (Option.some.inj hcb).symm
      cases cb; cases cb'; simp_all

/-! ### histories -/

/-- cache + one browser (created on the empty cache) + the callback batches delivered so far, oldest first -/
structure BrowserRun where
  cache : Cache := {}
  browser : Browser
  batches : List (List Callback) := []

/-- one event; an exception would leave everything as it was (never happens for datagrams: `C06_post_state`) -/
def BrowserRun.step (st : BrowserRun) (ev : Event) : BrowserRun :=
  match (match ev with
    | .datagram now recs => Browser.onDatagram lower possible st.cache st.browser now recs
    | .purge now => Browser.onPurge lower possible st.cache st.browser now) with
  | .ok o => { cache := o.cache, browser := o.browser, batches := st.batches ++ [o.callbacks] }
  | .error _ => st

def browserRun (types : List String) (evs : List Event) : BrowserRun :=
  evs.foldl (BrowserRun.step lower possible) { browser := { types := types } }

/-- the Added/Removed callbacks delivered for `(t, a)` (instance compared case-insensitively), in order -/
def changesFor (batches : List (List Callback)) (t a : String) : List Change :=
  (batches.flatten.filter (fun cb => decide (cb.change ≠ .updated) && decide (cb.type = t) && decide (lower cb.name = lower a))).map (fun cb => cb.change)

/-- alternate, starting with Added -/
def alternates : List Change → Bool
  | [] => true
  | [.added] => true
  | .added :: .removed :: rest => alternates rest
  | _ => false

/-- reported Added and not since Removed -/
def reportedLive (batches : List (List Callback)) (t a : String) : Bool :=
  (changesFor lower batches t a).getLast? = some .added

/-- the restriction of the quantifier on a whole history -/
def WFHistory (types : List String) (evs : List Event) : Prop :=
  WFTypes lower possible types ∧ ∀ ev ∈ evs, match ev with
    | .datagram _ recs => WFDatagram lower types recs
    | .purge _ => True

/-- **C04, full statement (alternation)** — NOT proved here, see `C04_history_partial` -/
def C04_alternates_statement : Prop :=
  ∀ types evs, WFHistory lower possible types evs → ∀ t ∈ types, ∀ a,
    alternates (changesFor lower (browserRun lower possible types evs).batches t a) = true

/-- **C04, full statement (live set = cached pointer records)** — NOT proved here, see `C04_history_partial` -/
def C04_live_eq_cache_statement : Prop :=
  ∀ types evs, WFHistory lower possible types evs → ∀ t ∈ types, ∀ a,
    reportedLive lower (browserRun lower possible types evs).batches t a
      = ((browserRun lower possible types evs).cache.getUnique lower (ptrRec t a)).isSome

/-- **C04 (history level, partial).**  What is proved towards the two statements above: along any history the
browser is quiescent between events (nothing pending) and keeps its types — so `C04_datagram_exact` applies
to *every datagram step of every history*: at each such step the Added/Removed callbacks are exactly the
changes of the cached pointer records, at most one per (type, instance).

Missing for the full statements: (i) the same exactness for the purge step (`Browser.onPurge`), which needs
the provenance invariant "every cached pointer record is spelled as some datagram record was", so that the
purged record's owner name matches its browsed type; (ii) the induction that turns per-step exactness into
`alternates`/`reportedLive = cached` (`changesFor` of an appended batch).  Both are exercised on every run by
the correspondence check and the Python oracle of `harness/c04.py` (stage O evaluates exactly
`C04_alternates_statement` and `C04_live_eq_cache_statement` on the implementation's callbacks). -/
theorem C04_history_partial (types : List String) (evs : List Event) :
    (browserRun lower possible types evs).browser.pending = []
    ∧ (browserRun lower possible types evs).browser.types = types := by
  unfold browserRun
  have gen : ∀ (st : BrowserRun), st.browser.pending = [] ∧ st.browser.types = types →
      (evs.foldl (BrowserRun.step lower possible) st).browser.pending = [] ∧ (evs.foldl (BrowserRun.step lower possible) st).browser.types = types := by
    induction evs with
    | nil => intro st h; exact h
    | cons ev rest ih =>
      intro st h
      simp only [List.foldl_cons]
      apply ih
      unfold BrowserRun.step
      cases ev with
      | datagram now recs =>
        simp only []
        cases hd : Browser.onDatagram lower possible st.cache st.browser now recs with
        | error e => exact h
        | ok o =>
          simp only []
          unfold Browser.onDatagram at hd
          cases hi : ingest lower (Cache.ops lower) st.cache now recs with
          | error e => rw [hi] at hd; cases hd
          | ok out =>
            rw [hi] at hd
            simp only [bind, Except.bind] at hd
            cases hc : out.call1 with
            | none => rw [hc] at hd; cases hd; exact h
            | some call =>
              rw [hc] at hd
              cases hd
              exact ⟨rfl, Browser.updateRecords_types lower possible h.2 _ _ _⟩
      | purge now =>
        simp only []
        cases hd : Browser.onPurge lower possible st.cache st.browser now with
        | error e => exact h
        | ok o =>
          simp only []
          unfold Browser.onPurge at hd
          cases hi : expire (Cache.ops lower) st.cache now with
          | error e => rw [hi] at hd; cases hd
          | ok out =>
            rw [hi] at hd
            cases hd
            exact ⟨rfl, Browser.updateRecords_types lower possible h.2 _ _ _⟩
  exact gen _ ⟨rfl, rfl⟩

/-! non-vacuity of the hypotheses -/

example : WFTypes id (fun n => [n]) ["_x._tcp.local.", "_y._udp.local."] :=
  ⟨by decide, by decide⟩

example : WFDatagram id ["_x._tcp.local."]
    [⟨"_x._tcp.local.", 12, 1, false, 120, 0, .ptr "a._x._tcp.local."⟩, ⟨"_x._tcp.local.", 12, 1, false, 0, 0, .ptr "b._x._tcp.local."⟩,
     ⟨"a._x._tcp.local.", 16, 1, true, 120, 0, .txt []⟩] := by
  constructor
  · intro r hr hty
    simp only [List.mem_cons, List.not_mem_nil, or_false] at hr
    rcases hr with rfl | rfl | rfl
    · exact ⟨⟨_, rfl⟩, rfl, by simp⟩
    · exact ⟨⟨_, rfl⟩, rfl, by simp⟩
    · cases hty
  · intro r hr r' hr' a a' ha ha' hl
    exact hl

/-- the restriction on letter case is needed: the same new instance in two spellings inside one datagram is
announced twice (two pending keys), although it is one pointer record -/
example :
    (Browser.complete (Browser.updateRecords id (fun n => [n]) {} 1000 { types := ["_x._tcp.local."] }
      [(⟨"_x._tcp.local.", 12, 1, false, 120, 1000, .ptr "a._x._tcp.local."⟩, none),
       (⟨"_x._tcp.local.", 12, 1, false, 120, 1000, .ptr "A._x._tcp.local."⟩, none)])).2.length = 2 := by decide

end
end Zc
