import Zc.Proofs.HostLive
/-! # C12 over runs of the whole host

`Zc.Props.C12` proves the timing bounds for one `MulticastOutgoingQueue` in isolation (`Run`) and links a classified query to
them under hypotheses about the block.  Here the same bounds are theorems about **every run of the host model** — datagrams,
truncated-query timers and both queue timers interleaved in any way — that satisfies the event-loop facts `LoopAx`
(`Zc.Proofs.HostRun`): loop time is monotone, no block runs after a pending timer's due time, a timer callback runs exactly
when due; blocks are atomic.  `Host.step` checks these facts, so every accepted run (`Host.run … = .ok …`, what trace acceptance
establishes for every replayed simulator trace) is such a run: `C12_host_accepted`.

Each `add` of a run is identified as an assembled query of that run (`Assembled`): the block's time is the handling time `c`,
the stamp is the arrival of the query's first packet, the records are what `async_response` classified.  Numbers are the English
property's. -/
namespace Zc.Reply
open GenFacts

/-- every run the model accepts satisfies the loop facts at every block -/
theorem C12_host_accepted (evs : List Ev) (h : Host) (clock : Int) (h' : Host) (outs : List (Int × List Out × List Draw))
    (hr : Host.run h clock evs = .ok (h', outs)) :
    ∃ c' tr, HRun h clock evs h' c' tr ∧ outs = tr.map (fun p => (p.1.time, p.2.outs, p.2.draws)) :=
  HRun.of_run evs h clock h' outs hr

/-- **Run-level invariant** (from the initial state, along every run): both queues satisfy C12's timed invariant, every deferred
packet is older than the clock, and **there is at most one truncated-query timer per source address, armed only while
packets of that address are deferred** -/
theorem C12_host_invariant {c0 : Int} {evs : List Ev} {h' : Host} {c' : Int} {tr : List (Ev × StepOut)} (hr : HRun {} c0 evs h' c' tr) :
    (∃ hO hD, HInv hO hD c' h') ∧
    ∀ a, (h'.lis.timers.filter (fun tm => tm.addr == a)).length ≤ 1 ∧
      (h'.lis.timers.filter (fun tm => tm.addr == a) ≠ [] → h'.lis.deferredOf a ≠ []) := by
  have hI := hr.inv [] [] (HInv.init c0)
  exact ⟨⟨_, _, hI⟩, hI.timers⟩

/-- **Window, aggregation queue, over host runs.**  Whatever `out_queue`'s timer callback multicasts at `s` in a run from the
initial state: no record twice, and each record `x` answers a query assembled in an earlier block of the same run — handled at
`c ≤ s`, first packet arrived at `t`, `x` classified *aggregate* by `async_response` — with `t + 20 ≤ s ≤ c + 500`. -/
theorem C12_host_window_aggregate {c0 : Int} {evs : List Ev} {h' : Host} {c' : Int} {tr : List (Ev × StepOut)}
    (hr : HRun {} c0 evs h' c' tr) :
    ∀ p ∈ tr, ∀ s, p.1 = .qfire s false → ∀ o ∈ p.2.outs, ∃ b, o = Out.ofMcast b ∧ b.keys.Nodup ∧
      ∀ x ∈ b.keys, ∃ st ∈ traceStates {} tr, ∃ pkts port first qa, Assembled st.1 st.2.1 pkts port first qa ∧
        x ∈ qa.mcastAgg.keys ∧ st.2.1.time ≤ s ∧ first.now + 20 ≤ s ∧ s ≤ st.2.1.time + 500 := by
  intro p hp s hps o ho
  obtain ⟨b, hb, hn, hw⟩ := hr.safe false [] [] (HInv.init c0) p hp s hps o ho
  refine ⟨b, hb, hn, fun x hx => ?_⟩
  obtain ⟨ad, had, h1, h2, h3, h4⟩ := hw x hx
  simp only [Bool.false_eq_true, if_false, List.nil_append] at had
  obtain ⟨st, hst, pkts, port, first, qa, hasm, rfl⟩ := traceAdds_origin false tr {} ad had
  have e1 := drawLo_eq; have e2 := outQP_addl; have e3 := outQP_agg
  simp only [qpOf, Bool.false_eq_true, if_false] at h1 h2 h3 h4
  exact ⟨st, hst, pkts, port, first, qa, hasm, h1, h2, by omega, by omega⟩

/-- **Window, protected queue, over host runs**: `t + 1020 ≤ s ≤ c + 1200`, the record classified *seen in the last second*. -/
theorem C12_host_window_protected {c0 : Int} {evs : List Ev} {h' : Host} {c' : Int} {tr : List (Ev × StepOut)}
    (hr : HRun {} c0 evs h' c' tr) :
    ∀ p ∈ tr, ∀ s, p.1 = .qfire s true → ∀ o ∈ p.2.outs, ∃ b, o = Out.ofMcast b ∧ b.keys.Nodup ∧
      ∀ x ∈ b.keys, ∃ st ∈ traceStates {} tr, ∃ pkts port first qa, Assembled st.1 st.2.1 pkts port first qa ∧
        x ∈ qa.mcastLast.keys ∧ st.2.1.time ≤ s ∧ first.now + 1020 ≤ s ∧ s ≤ st.2.1.time + 1200 := by
  intro p hp s hps o ho
  obtain ⟨b, hb, hn, hw⟩ := hr.safe true [] [] (HInv.init c0) p hp s hps o ho
  refine ⟨b, hb, hn, fun x hx => ?_⟩
  obtain ⟨ad, had, h1, h2, h3, h4⟩ := hw x hx
  simp only [if_true, List.nil_append] at had
  obtain ⟨st, hst, pkts, port, first, qa, hasm, rfl⟩ := traceAdds_origin true tr {} ad had
  have e1 := drawLo_eq; have e2 := delayQP_addl; have e3 := delayQP_agg
  simp only [qpOf, if_true] at h1 h2 h3 h4
  exact ⟨st, hst, pkts, port, first, qa, hasm, h1, h2, by omega, by omega⟩

/-- **One-second clause, timing, over host runs** (`_partial`, D12b): a protected batch at `s` is at least one second after
every sighting `created` that precedes the arrival of the *first* packet of the query that caused it (for an ordinary query:
its arrival) — the hypothesis `created ≤ first.now` is what `C12_one_sec_timing_refuted` shows cannot be dropped — and at most
1.2 s after that query was handled. -/
theorem C12_host_one_sec_timing_partial {c0 : Int} {evs : List Ev} {h' : Host} {c' : Int} {tr : List (Ev × StepOut)}
    (hr : HRun {} c0 evs h' c' tr) (created : Int) :
    ∀ p ∈ tr, ∀ s, p.1 = .qfire s true → ∀ o ∈ p.2.outs, ∃ b, o = Out.ofMcast b ∧
      ∀ x ∈ b.keys, ∃ st ∈ traceStates {} tr, ∃ pkts port first qa, Assembled st.1 st.2.1 pkts port first qa ∧
        x ∈ qa.mcastLast.keys ∧ (created ≤ first.now → created + 1000 ≤ s) ∧ s ≤ st.2.1.time + 1200 := by
  intro p hp s hps o ho
  obtain ⟨b, hb, _, hw⟩ := C12_host_window_protected hr p hp s hps o ho
  refine ⟨b, hb, fun x hx => ?_⟩
  obtain ⟨st, hst, pkts, port, first, qa, hasm, h1, _, h3, h4⟩ := hw x hx
  exact ⟨st, hst, pkts, port, first, qa, hasm, h1, fun hc => by omega, h4⟩

/-- **From classification to the wire, over host runs.**  In any state reached by a run from the initial state (`HInv`), let
a block assemble a query and `async_response` classify `x` as aggregate (`d = false`) or seen-in-the-last-second
(`d = true`).  Then in *every* continuation of the run, `x` is multicast by that queue's timer callback at some
`s ∈ [c, c + 500]` (`[c, c + 1200]`), `c` the block's time — or the run ends before that, or a later block of the run withdraws
`x` from that queue (`Ev.qremove`: `async_remove_answers`, its service was unregistered).  No hypothesis about the block
beyond the loop facts that `HRun` carries; registry changes may occur anywhere in the run. -/
theorem C12_host_on_wire (d : Bool) {hO hD : List AddRec} {clock : Int} {h : Host} (hI : HInv hO hD clock h)
    {e : Ev} {es : List Ev} {h' : Host} {c' : Int} {r : StepOut} {tr : List (Ev × StepOut)}
    (hr : HRun h clock (e :: es) h' c' ((e, r) :: tr))
    {pkts : List Pkt} {port : Nat} {first : Pkt} {qa : QA} (hasm : Assembled h e pkts port first qa)
    {x : RecId} (hx : x ∈ (if d then qa.mcastLast else qa.mcastAgg).keys) :
    (∃ p ∈ tr, ∃ s b, p.1 = .qfire s d ∧ Out.ofMcast b ∈ p.2.outs ∧ x ∈ b.keys ∧ e.time ≤ s ∧
        s ≤ e.time + (if d then 1200 else 500)) ∨
      c' ≤ e.time + (if d then 1200 else 500) ∨ withdrawnInTrace d tr x := by
  cases hr with
  | cons hax hs hrest =>
    obtain ⟨a, hd, hperf⟩ := step_decide hs
    obtain ⟨⟨lis, addr, hdec⟩, hf, hqa⟩ := hasm
    rw [hdec] at hd
    cases hd
    have hI' := hI.step hax hdec hperf
    obtain ⟨rest, hasm'⟩ := perform_answer hperf
    obtain ⟨first', hf', _, _, hq1, hq2⟩ := assemble_spec hasm' hqa
    rw [hf] at hf'; cases hf'
    -- the record sits in queue `d` after the block, in a group created no later than the block
    have hqueued : ∃ g ∈ (r.host.q d).groups, x ∈ g.answers.keys ∧ g.born + (qpOf d).agg + (qpOf d).addl ≤ e.time + (qpOf d).agg + (qpOf d).addl := by
      cases d
      · simp only [Bool.false_eq_true, if_false] at hx
        obtain ⟨dr, _, _, heq⟩ := hq1.2 (Dict.isEmpty_false_of_mem hx)
        obtain ⟨g', hg', hx', hb⟩ := Queue.add_has outQP h.outQ hI.outQ e.time first.now dr hax.monotone qa.mcastAgg hx
        exact ⟨g', by simp only [Host.q, Bool.false_eq_true, if_false]; rw [heq]; exact hg', hx', by omega⟩
      · simp only [if_true] at hx
        obtain ⟨dr, _, _, heq⟩ := hq2.2 (Dict.isEmpty_false_of_mem hx)
        obtain ⟨g', hg', hx', hb⟩ := Queue.add_has delayQP h.delayQ hI.delayQ e.time first.now dr hax.monotone qa.mcastLast hx
        exact ⟨g', by simp only [Host.q, if_true]; rw [heq]; exact hg', hx', by omega⟩
    have hnum : e.time + (qpOf d).agg + (qpOf d).addl = e.time + (if d then 1200 else 500) := by
      have e2 := outQP_addl; have e3 := outQP_agg; have e4 := delayQP_addl; have e5 := delayQP_agg
      cases d <;> simp only [qpOf, Bool.false_eq_true, if_false, if_true] <;> omega
    rw [hnum] at hqueued
    rcases hrest.live d _ _ hI' x _ hqueued with ⟨p, hp, s, b, h1, h2, h3, h4⟩ | ⟨g, hg, _, hD⟩ | hw
    · have ht := hrest.times.2 p hp
      rw [h1] at ht
      exact Or.inl ⟨p, hp, s, b, h1, h2, h3, ht, h4⟩
    · right; left
      have hend := (hrest.inv _ _ hI').q d
      have := hend.not_late hg
      omega
    · exact Or.inr (Or.inr hw)

/-- **answered once, together** (block level, as `Host.step` does it): whenever a block calls `handle_assembled_query` for an
address, it is called with *all* packets deferred for that address (plus the packet at hand, if the block is an arrival), and
afterwards nothing is deferred and no timer is armed for the address; with `C12_host_invariant` (at most one timer per
address) no second call for the same packets can follow -/
theorem C12_host_answers_once {h : Host} {e : Ev} {lis : Listener} {pkts : List Pkt} {addr port : Nat}
    (hd : h.decide e = .ok (.answer lis pkts addr port)) :
    lis.deferredOf addr = [] ∧ lis.timers.filter (fun tm => tm.addr == addr) = [] ∧
    ∃ msg : Option Pkt, pkts = h.lis.deferredOf addr ++ msg.toList := by
  obtain ⟨lis1, msg, h1, _, rfl, rfl, _⟩ := decide_answer hd
  refine ⟨take_deferredOf_same _ _ _, take_timers_same _ _ _, msg, ?_⟩
  rw [take_pkts, deferredOf_congr h1 addr]

end Zc.Reply
