import Zc.Proofs.HostLive
/-! # C12 over runs of the whole host

`Zc.Props.C12` proves the timing bounds for one `MulticastOutgoingQueue` in isolation (`Run`) and links a classified query to
them under hypotheses about the block.  Here the same bounds are theorems about **every run of the host model** — datagrams,
truncated-query timers and both queue timers interleaved in any way — that satisfies the event-loop facts `LoopAx`
(`Zc.Proofs.HostRun`): loop time is monotone, no block runs after a pending timer's due time, a timer callback runs exactly
when due; blocks are atomic.  `Host.step` checks these facts, so every accepted run (`Host.run … = .ok …`, what trace acceptance
establishes for every replayed simulator trace) is such a run: `C12_host_accepted`.

Each `add` of a run is identified as an assembled query of that run (`Assembled`): the block's time is the handling time `c`,
the stamp is the arrival of the query's first packet, the records are what `async_response` classified.  Numbers are the English
property's. -/
namespace Zc.Reply
open GenFacts

/-- every run the model accepts satisfies the loop facts at every block -/
theorem C12_host_accepted (evs : List Ev) (h : Host) (clock : Int) (h' : Host) (outs : List (Int × List Out × List Draw))
    (hr : Host.run h clock evs = .ok (h', outs)) :
    ∃ c' tr, HRun h clock evs h' c' tr ∧ outs = tr.map (fun p => (p.1.time, p.2.outs, p.2.draws)) :=
  HRun.of_run evs h clock h' outs hr

/-- **Run-level invariant** (from the initial state, along every run): both queues satisfy C12's timed invariant, every deferred
packet is older than the clock, and **there is at most one truncated-query timer per source address, armed only while
packets of that address are deferred** -/
theorem C12_host_invariant {c0 : Int} {evs : List Ev} {h' : Host} {c' : Int} {tr : List (Ev × StepOut)} (hr : HRun {} c0 evs h' c' tr) :
    (∃ hO hD, HInv hO hD c' h') ∧
    ∀ a, (h'.lis.timers.filter (fun tm => tm.addr == a)).length ≤ 1 ∧
      (h'.lis.timers.filter (fun tm => tm.addr == a) ≠ [] → h'.lis.deferredOf a ≠ []) := by
  have hI := hr.inv [] [] (HInv.init c0)
  exact ⟨⟨_, _, hI⟩, hI.timers⟩

/-- **Window, aggregation queue, over host runs.**  Whatever `out_queue`'s timer callback multicasts at `s` in a run from the
initial state: no record twice, and each record `x` answers a query assembled in an earlier block of the same run — handled at
`c ≤ s`, first packet arrived at `t`, `x` classified *aggregate* by `async_response` — with `t + 20 ≤ s ≤ c + 500`. -/
theorem C12_host_window_aggregate {c0 : Int} {evs : List Ev} {h' : Host} {c' : Int} {tr : List (Ev × StepOut)}
    (hr : HRun {} c0 evs h' c' tr) :
    ∀ p ∈ tr, ∀ s, p.1 = .qfire s false → ∀ o ∈ p.2.outs, ∃ b, o = Out.ofMcast b ∧ b.keys.Nodup ∧
      ∀ x ∈ b.keys, ∃ st ∈ traceStates {} tr, ∃ pkts port first qa, Assembled st.1 st.2.1 pkts port first qa ∧
        x ∈ qa.mcastAgg.keys ∧ st.2.1.time ≤ s ∧ first.now + 20 ≤ s ∧ s ≤ st.2.1.time + 500 := by
  intro p hp s hps o ho
  obtain ⟨b, hb, hn, hw⟩ := hr.safe false [] [] (HInv.init c0) p hp s hps o ho
  refine ⟨b, hb, hn, fun x hx => ?_⟩
  obtain ⟨ad, had, h1, h2, h3, h4⟩ := hw x hx
  simp only [Bool.false_eq_true, if_false, List.nil_append] at had
  obtain ⟨st, hst, pkts, port, first, qa, hasm, rfl⟩ := traceAdds_origin false tr {} ad had
  have e1 := drawLo_eq; have e2 := outQP_addl; have e3 := outQP_agg
  simp only [qpOf, Bool.false_eq_true, if_false] at h1 h2 h3 h4
  exact ⟨st, hst, pkts, port, first, qa, hasm, h1, h2, by omega, by omega⟩

/-- **Window, protected queue, over host runs**: `t + 1020 ≤ s ≤ c + 1200`, the record classified *seen in the last second*. -/
theorem C12_host_window_protected {c0 : Int} {evs : List Ev} {h' : Host} {c' : Int} {tr : List (Ev × StepOut)}
    (hr : HRun {} c0 evs h' c' tr) :
    ∀ p ∈ tr, ∀ s, p.1 = .qfire s true → ∀ o ∈ p.2.outs, ∃ b, o = Out.ofMcast b ∧ b.keys.Nodup ∧
      ∀ x ∈ b.keys, ∃ st ∈ traceStates {} tr, ∃ pkts port first qa, Assembled st.1 st.2.1 pkts port first qa ∧
        x ∈ qa.mcastLast.keys ∧ st.2.1.time ≤ s ∧ first.now + 1020 ≤ s ∧ s ≤ st.2.1.time + 1200 := by
  intro p hp s hps o ho
  obtain ⟨b, hb, hn, hw⟩ := hr.safe true [] [] (HInv.init c0) p hp s hps o ho
  refine ⟨b, hb, hn, fun x hx => ?_⟩
  obtain ⟨ad, had, h1, h2, h3, h4⟩ := hw x hx
  simp only [if_true, List.nil_append] at had
  obtain ⟨st, hst, pkts, port, first, qa, hasm, rfl⟩ := traceAdds_origin true tr {} ad had
  have e1 := drawLo_eq; have e2 := delayQP_addl; have e3 := delayQP_agg
  simp only [qpOf, if_true] at h1 h2 h3 h4
  exact ⟨st, hst, pkts, port, first, qa, hasm, h1, h2, by omega, by omega⟩

/-- **One-second clause, timing, over host runs** (`_partial`, D12b): a protected batch at `s` is at least one second after
every sighting `created` that precedes the arrival of the *first* packet of the query that caused it (for an ordinary query:
its arrival) — the hypothesis `created ≤ first.now` is what `C12_one_sec_timing_refuted` shows cannot be dropped — and at most
1.2 s after that query was handled. -/
theorem C12_host_one_sec_timing_partial {c0 : Int} {evs : List Ev} {h' : Host} {c' : Int} {tr : List (Ev × StepOut)}
    (hr : HRun {} c0 evs h' c' tr) (created : Int) :
    ∀ p ∈ tr, ∀ s, p.1 = .qfire s true → ∀ o ∈ p.2.outs, ∃ b, o = Out.ofMcast b ∧
      ∀ x ∈ b.keys, ∃ st ∈ traceStates {} tr, ∃ pkts port first qa, Assembled st.1 st.2.1 pkts port first qa ∧
        x ∈ qa.mcastLast.keys ∧ (created ≤ first.now → created + 1000 ≤ s) ∧ s ≤ st.2.1.time + 1200 := by
  intro p hp s hps o ho
  obtain ⟨b, hb, _, hw⟩ := C12_host_window_protected hr p hp s hps o ho
  refine ⟨b, hb, fun x hx => ?_⟩
  obtain ⟨st, hst, pkts, port, first, qa, hasm, h1, _, h3, h4⟩ := hw x hx
  exact ⟨st, hst, pkts, port, first, qa, hasm, h1, fun hc => by omega, h4⟩

/-- **From classification to the wire, over host runs.**  In any state reached by a run from the initial state (`HInv`), let
a block assemble a query and `async_response` classify `x` as aggregate (`d = false`) or seen-in-the-last-second
(`d = true`).  Then in *every* continuation of the run, `x` is multicast by that queue's timer callback at some
`s ∈ [c, c + 500]` (`[c, c + 1200]`), `c` the block's time — or the run ends before that, or a later block of the run withdraws
`x` from that queue (`Ev.qremove`: `async_remove_answers`, its service was unregistered).  No hypothesis about the block
beyond the loop facts that `HRun` carries; registry changes may occur anywhere in the run. -/
theorem C12_host_on_wire (d : Bool) {hO hD : List AddRec} {clock : Int} {h : Host} (hI : HInv hO hD clock h)
    {e : Ev} {es : List Ev} {h' : Host} {c' : Int} {r : StepOut} {tr : List (Ev × StepOut)}
    (hr : HRun h clock (e :: es) h' c' ((e, r) :: tr))
    {pkts : List Pkt} {port : Nat} {first : Pkt} {qa : QA} (hasm : Assembled h e pkts port first qa)
    {x : RecId} (hx : x ∈ (if d then qa.mcastLast else qa.mcastAgg).keys) :
    (∃ p ∈ tr, ∃ s b, p.1 = .qfire s d ∧ Out.ofMcast b ∈ p.2.outs ∧ x ∈ b.keys ∧ e.time ≤ s ∧
        s ≤ e.time + (if d then 1200 else 500)) ∨
      c' ≤ e.time + (if d then 1200 else 500) ∨ withdrawnInTrace d tr x := by
  cases hr with
  | cons hax hs hrest =>
    obtain ⟨a, hd, hperf⟩ := step_decide hs
    obtain ⟨⟨lis, addr, hdec⟩, hf, hqa⟩ := hasm
    rw [hdec] at hd
    cases hd
    have hI' := hI.step hax hdec hperf
    obtain ⟨rest, hasm'⟩ := perform_answer hperf
    obtain ⟨first', hf', _, _, hq1, hq2⟩ := assemble_spec hasm' hqa
    rw [hf] at hf'; cases hf'
    -- the record sits in queue `d` after the block, in a group created no later than the block
    have hqueued : ∃ g ∈ (r.host.q d).groups, x ∈ g.answers.keys ∧ g.born + (qpOf d).agg + (qpOf d).addl ≤ e.time + (qpOf d).agg + (qpOf d).addl := by
      cases d
      · simp only [Bool.false_eq_true, if_false] at hx
        obtain ⟨dr, _, _, heq⟩ := hq1.2 (Dict.isEmpty_false_of_mem hx)
        obtain ⟨g', hg', hx', hb⟩ := Queue.add_has outQP h.outQ hI.outQ e.time first.now dr hax.monotone qa.mcastAgg hx
        exact ⟨g', by simp only [Host.q, Bool.false_eq_true, if_false]; rw [heq]; exact hg', hx', by omega⟩
      · simp only [if_true] at hx
        obtain ⟨dr, _, _, heq⟩ := hq2.2 (Dict.isEmpty_false_of_mem hx)
        obtain ⟨g', hg', hx', hb⟩ := Queue.add_has delayQP h.delayQ hI.delayQ e.time first.now dr hax.monotone qa.mcastLast hx
        exact ⟨g', by simp only [Host.q, if_true]; rw [heq]; exact hg', hx', by omega⟩
    have hnum : e.time + (qpOf d).agg + (qpOf d).addl = e.time + (if d then 1200 else 500) := by
      have e2 := outQP_addl; have e3 := outQP_agg; have e4 := delayQP_addl; have e5 := delayQP_agg
      cases d <;> simp only [qpOf, Bool.false_eq_true, if_false, if_true] <;> omega
    rw [hnum] at hqueued
    rcases hrest.live d _ _ hI' x _ hqueued with ⟨p, hp, s, b, h1, h2, h3, h4⟩ | ⟨g, hg, _, hD⟩ | hw
    · have ht := hrest.times.2 p hp
      rw [h1] at ht
      exact Or.inl ⟨p, hp, s, b, h1, h2, h3, ht, h4⟩
    · right; left
      have hend := (hrest.inv _ _ hI').q d
      have := hend.not_late hg
      omega
    · exact Or.inr (Or.inr hw)

/-- **answered once, together** (block level, as `Host.step` does it): whenever a block calls `handle_assembled_query` for an
address, it is called with *all* packets deferred for that address (plus the packet at hand, if the block is an arrival), and
afterwards nothing is deferred and no timer is armed for the address; with `C12_host_invariant` (at most one timer per
address) no second call for the same packets can follow -/
theorem C12_host_answers_once {h : Host} {e : Ev} {lis : Listener} {pkts : List Pkt} {addr port : Nat}
    (hd : h.decide e = .ok (.answer lis pkts addr port)) :
    lis.deferredOf addr = [] ∧ lis.timers.filter (fun tm => tm.addr == addr) = [] ∧
    ∃ msg : Option Pkt, pkts = h.lis.deferredOf addr ++ msg.toList := by
  obtain ⟨lis1, msg, h1, _, rfl, rfl, _⟩ := decide_answer hd
  refine ⟨take_deferredOf_same _ _ _, take_timers_same _ _ _, msg, ?_⟩
  rw [take_pkts, deferredOf_congr h1 addr]

/-! ## The one-second clause on the wire: what holds per cause, and the two ways the literal sentence fails (second review, item 3)

English: "a record the host saw multicast less than one second before the query arrived is not multicast again until at least one
second after that sighting".  Read on its words it speaks about **every** multicast transmission of the record — as an answer or as
an additional, by whichever block — once a query has arrived for whose reply the record is wanted.  The code implements the rule
per *cause* and for *answers* only: `_has_mcast_record_in_last_second` is asked for the answers of the query being assembled; the
additionals of an answer are never tested, and a group already pending in a queue is not re-examined when the record is seen in
the meantime.  Decision: these are **findings** (deviations from the sentence), not readings —
`C12:additional-remulticast-within-1s` and `C12:pending-batch-remulticast-within-1s` in `known_findings.json`; each has a
`…_refuted` witness below, and `C12_host_answer_cause` is the partial statement: every multicast *answer* has a causing query of
the run, and it is with respect to *that* query (and sightings before its first packet: D12b) that the one-second rule holds. -/

/-- each block of a run comes with the state it started from, in which the model accepts it -/
theorem HRun.mem_states {h : Host} {c : Int} {evs : List Ev} {h' : Host} {c' : Int} {tr : List (Ev × StepOut)}
    (hr : HRun h c evs h' c' tr) : ∀ p ∈ tr, ∃ st, (st, p.1, p.2) ∈ traceStates h tr ∧ st.step p.1 = .ok p.2 := by
  induction hr with
  | nil h c => intro p hp; cases hp
  | @cons h clock e es r h' c' tr hax hs _ ih =>
    intro p hp
    rcases List.mem_cons.mp hp with rfl | hp
    · exact ⟨h, List.mem_cons_self, hs⟩
    · obtain ⟨st, h1, h2⟩ := ih p hp
      exact ⟨st, List.mem_cons_of_mem _ h1, h2⟩

theorem mcast_mem_immediateOuts {qa : QA} {addr port id nq : Nat} {us : Bool} {ans adds : List RecId}
    (h : Out.mcast ans adds ∈ immediateOuts qa addr port id nq us) : Out.mcast ans adds = Out.ofMcast qa.mcastNow := by
  simp only [immediateOuts, List.mem_append] at h
  rcases h with h | h
  · split at h
    · cases h
    · simp at h
  · split at h
    · cases h
    · simpa using h

/-- **`_partial`: every multicast answer has a cause, and the timing rules hold with respect to that cause.**  In a run from the
initial state, whenever a block multicasts a record `x` **as an answer**, some query assembled in the run put it there:
either this very block assembled it and `async_response` classified `x` "now" (`C12_immediate`: a probe, or not seen in the second
before that query's last packet and a single SRV/A/AAAA/NSEC question; or the QU rule, D12), or an earlier block did and classified
`x` aggregate (then `first + 20 ≤ m ≤ c + 500`) or seen-in-the-last-second (then `first + 1020 ≤ m ≤ c + 1200`, hence at least one
second after every sighting that precedes that query's first packet — `C12_host_one_sec_timing_partial`).
Hypotheses that make this weaker than the English, each a listed finding: the record travels **as an answer** (additionals are not
covered: `C12_one_sec_additional_refuted`), and the rule is relative to the **causing** query (a later query that saw the record
in between does not hold the earlier batch back: `C12_one_sec_pending_batch_refuted`); sightings between the first and the last
packet of the causing query: D12b. -/
theorem C12_host_answer_cause {c0 : Int} {evs : List Ev} {h' : Host} {c' : Int} {tr : List (Ev × StepOut)}
    (hr : HRun {} c0 evs h' c' tr) :
    ∀ p ∈ tr, ∀ ans adds, Out.mcast ans adds ∈ p.2.outs → ∀ x ∈ ans,
      ∃ st ∈ traceStates {} tr, ∃ pkts port first qa, Assembled st.1 st.2.1 pkts port first qa ∧
        ( (st.2.1 = p.1 ∧ st.2.2 = p.2 ∧ x ∈ qa.mcastNow.keys)
        ∨ (x ∈ qa.mcastAgg.keys ∧ st.2.1.time ≤ p.1.time ∧ first.now + 20 ≤ p.1.time ∧ p.1.time ≤ st.2.1.time + 500)
        ∨ (x ∈ qa.mcastLast.keys ∧ st.2.1.time ≤ p.1.time ∧ first.now + 1020 ≤ p.1.time ∧ p.1.time ≤ st.2.1.time + 1200) ) := by
  intro p hp ans adds ho x hx
  obtain ⟨st, hst, hstep⟩ := hr.mem_states p hp
  obtain ⟨a, hd, hperf⟩ := step_decide hstep
  cases a with
  | idle lis => rw [(perform_idle hperf).2] at ho; cases ho
  | defer lis d => rw [(perform_defer hperf).2] at ho; cases ho
  | remove d recs => rw [(perform_remove hperf).1] at ho; cases ho
  | ready d =>
    obtain ⟨s, hs⟩ := decide_ready hd
    cases d
    · obtain ⟨b, hb, _, hw⟩ := C12_host_window_aggregate hr p hp s hs _ ho
      have hans : ans = b.keys := by simp only [Out.ofMcast, Out.mcast.injEq] at hb; exact hb.1
      obtain ⟨st', hst', pkts, port, first, qa, hasm, h1, h2, h3, h4⟩ := hw x (hans ▸ hx)
      have ht : p.1.time = s := by rw [hs]; rfl
      exact ⟨st', hst', pkts, port, first, qa, hasm, Or.inr (Or.inl ⟨h1, by omega, by omega, by omega⟩)⟩
    · obtain ⟨b, hb, _, hw⟩ := C12_host_window_protected hr p hp s hs _ ho
      have hans : ans = b.keys := by simp only [Out.ofMcast, Out.mcast.injEq] at hb; exact hb.1
      obtain ⟨st', hst', pkts, port, first, qa, hasm, h1, h2, h3, h4⟩ := hw x (hans ▸ hx)
      have ht : p.1.time = s := by rw [hs]; rfl
      exact ⟨st', hst', pkts, port, first, qa, hasm, Or.inr (Or.inr ⟨h1, by omega, by omega, by omega⟩)⟩
  | answer lis pkts addr port =>
    obtain ⟨rest, hasm⟩ := perform_answer hperf
    cases hqa : asyncResponse pkts (Gen.Reply.ucast_source port) p.1.seen with
    | none => rw [(assemble_none hasm hqa).1] at ho; cases ho
    | some qa =>
      obtain ⟨first, hf, houts, _⟩ := assemble_spec hasm hqa
      rw [houts] at ho
      have heq := mcast_mem_immediateOuts ho
      have hans : ans = qa.mcastNow.keys := by simp only [Out.ofMcast, Out.mcast.injEq] at heq; exact heq.1
      exact ⟨(st, p.1, p.2), hst, pkts, port, first, qa, ⟨⟨lis, addr, hd⟩, hf, hqa⟩, Or.inl ⟨rfl, rfl, hans ▸ hx⟩⟩

/-- not a packet of a truncated train and not a probe: in a run of such events every assembly is the one packet at hand -/
def Ev.plain : Ev → Bool
  | .rx _ _ _ _ _ _ (.query p) _ _ => !p.truncated && !p.isProbe
  | _ => true

/-- the records a reply multicasts, at once or from a queue: answers and their additionals -/
def QA.mcastRecords (qa : QA) : List RecId :=
  (qa.mcastNow ++ qa.mcastAgg ++ qa.mcastLast).keys ++ (qa.mcastNow ++ qa.mcastAgg ++ qa.mcastLast).flatMap (·.2)

/-- **the one-second clause as the English has it** (for ordinary, non-probe queries; no truncated trains anywhere in the run):
once a query has arrived at `t` for whose reply record `x` is wanted — as an answer or as an additional — and the host saw `x`
multicast at `s.created`, less than a second before, no block of the run multicasts `x` again (in either section) before
`s.created + 1000` -/
def C12_one_sec_wire_full : Prop :=
  ∀ (c0 : Int) (pre : List Ev) (t : Int) (addr port dataId size : Nat) (hasQu : Bool) (p : Pkt) (seen : SeenMap) (draws : List Int)
    (post : List Ev) (h' : Host) (outs : List (Int × List Out × List Draw)),
    (∀ e ∈ pre ++ post, e.plain = true) → p.truncated = false → p.isProbe = false →
    Host.run {} c0 (pre ++ .rx t addr port dataId size hasQu (.query p) seen draws :: post) = .ok (h', outs) →
    ∀ qa, asyncResponse [p] (Gen.Reply.ucast_source port) seen = some qa →
    ∀ x s, seen.get x = some s → s.created ≤ t → t - s.created < 1000 → x ∈ qa.mcastRecords →
    ∀ o ∈ outs.drop pre.length, ∀ ans adds, Out.mcast ans adds ∈ o.2.1 → x ∈ ans ++ adds → s.created + 1000 ≤ o.1

/-- a PTR question (one candidate answer, record 1, with `adds` as its additionals) as datagram `dataId` arriving at `now` -/
def ptrQuery (dataId : Nat) (now : Int) (adds : List RecId) : Pkt :=
  { dataId, now, id := 7, flags := 0, numAuth := 0, nq := 1, q0type := 12,
    items := [{ qu := false, cands := [{ id := 1, ttl := 4500, adds }] }], known := [] }

/-- **`_refuted`, additionals** (`C12:additional-remulticast-within-1s`): record 2 (say, the SRV) was seen multicast at 700; a PTR
question arrives at 1000; its answer (record 1) is aggregated and goes out at 1020 **with record 2 as an additional** — 320 ms
after the sighting.  (Real responder: SRV answered at 5800, PTR question at 6100, reply at 6124 carries the SRV again.) -/
theorem C12_one_sec_additional_refuted : ¬ C12_one_sec_wire_full := by
  intro h
  have hrun : (Host.run {} 1000 ([] ++ Ev.rx 1000 1 5353 1 50 false (.query (ptrQuery 1 1000 [2])) [(2, { created := 700, ttl := 120 })] [20] ::
      [Ev.qfire 1020 false])).toOption.map (·.2) = some [(1000, [], [Draw.mk 20 120 20]), (1020, [Out.mcast [1] [2]], [])] := by decide
  cases hx : Host.run {} 1000 ([] ++ Ev.rx 1000 1 5353 1 50 false (.query (ptrQuery 1 1000 [2])) [(2, { created := 700, ttl := 120 })] [20] ::
      [Ev.qfire 1020 false]) with
  | error m => rw [hx] at hrun; cases hrun
  | ok v =>
    obtain ⟨h', outs⟩ := v
    rw [hx] at hrun
    simp only [Except.toOption, Option.map_some, Option.some.injEq] at hrun
    have := h 1000 [] 1000 1 5353 1 50 false (ptrQuery 1 1000 [2]) [(2, { created := 700, ttl := 120 })] [20] [Ev.qfire 1020 false] h' outs
      (by decide) (by decide) (by decide) hx _ (by decide : asyncResponse [ptrQuery 1 1000 [2]] (Gen.Reply.ucast_source 5353)
        [(2, { created := 700, ttl := 120 })] = some { ucast := [], mcastNow := [], mcastAgg := [(1, [2])], mcastLast := [] })
      2 { created := 700, ttl := 120 } (by decide) (by decide) (by decide) (by decide)
      (1020, [Out.mcast [1] [2]], []) (by rw [hrun]; decide) [1] [2] (by decide) (by decide)
    revert this; decide

/-- **`_refuted`, a batch that was already pending** (`C12:pending-batch-remulticast-within-1s`): query A (PTR) arrives at 1000, its
answer (record 1) is aggregated with draw 120 and waits; the host sees record 1 multicast at 1005; query B for the same record
arrives at 1010 and is classified "seen in the last second" (protected queue, not before 2030) — but A's pending batch multicasts
record 1 at 1120, 115 ms after the sighting.  (Real responder: sighting 5805, query 5810, multicast 6300.) -/
theorem C12_one_sec_pending_batch_refuted : ¬ C12_one_sec_wire_full := by
  intro h
  have hrun : (Host.run {} 1000 ([Ev.rx 1000 1 5353 1 50 false (.query (ptrQuery 1 1000 [])) [] [120]] ++
      Ev.rx 1010 2 5353 2 50 false (.query (ptrQuery 2 1010 [])) [(1, { created := 1005, ttl := 4500 })] [20] ::
      [Ev.qfire 1120 false])).toOption.map (·.2) =
      some [(1000, [], [Draw.mk 20 120 120]), (1010, [], [Draw.mk 20 120 20]), (1120, [Out.mcast [1] []], [])] := by decide
  cases hx : Host.run {} 1000 ([Ev.rx 1000 1 5353 1 50 false (.query (ptrQuery 1 1000 [])) [] [120]] ++
      Ev.rx 1010 2 5353 2 50 false (.query (ptrQuery 2 1010 [])) [(1, { created := 1005, ttl := 4500 })] [20] ::
      [Ev.qfire 1120 false]) with
  | error m => rw [hx] at hrun; cases hrun
  | ok v =>
    obtain ⟨h', outs⟩ := v
    rw [hx] at hrun
    simp only [Except.toOption, Option.map_some, Option.some.injEq] at hrun
    have := h 1000 [Ev.rx 1000 1 5353 1 50 false (.query (ptrQuery 1 1000 [])) [] [120]] 1010 2 5353 2 50 false (ptrQuery 2 1010 [])
      [(1, { created := 1005, ttl := 4500 })] [20] [Ev.qfire 1120 false] h' outs
      (by decide) (by decide) (by decide) hx _ (by decide : asyncResponse [ptrQuery 2 1010 []] (Gen.Reply.ucast_source 5353)
        [(1, { created := 1005, ttl := 4500 })] = some { ucast := [], mcastNow := [], mcastAgg := [], mcastLast := [(1, [])] })
      1 { created := 1005, ttl := 4500 } (by decide) (by decide) (by decide) (by decide)
      (1120, [Out.mcast [1] []], []) (by rw [hrun]; decide) [1] [] (by decide) (by decide)
    revert this; decide

end Zc.Reply
