import Zc.Proofs.Sched
import Zc.Proofs.Sched2
import Zc.Proofs.SchedRefreshed
import Zc.GenFacts.FnSched
import Zc.GenFacts.FnSchedRun
/-! # C10 — the browser keeps learned services alive: refresh queries, rate limit, liveness

Model: `Zc.Sched` (`lean/Zc/Model/Sched.lean`), the `QueryScheduler` of `_services/browser.py` **after**
the repairs `notes/fixes/D7.diff` (re-arm for an earlier deadline; next wake-up chosen after the rescue
queries are pushed; a kept schedule follows the refreshed record's lifetime) and `notes/fixes/D7c.diff`
(entries keyed by `alias_key`).  On the unrepaired tree the correspondence harness disagrees with this
model and the oracle reports the violation with a replay (corpus/C10).

A history is a list of timed atomic blocks `(t, op)`: `start draw`, `ptr alias type ttl created`
(`reschedule_ptr_first_refresh`, every learned / refreshed pointer record; `alias` is the lower-cased
instance name, so a re-cased record is the same instance by construction), `cancel alias` (withdrawn or
expired record), `fire done` (the armed timer runs), `stop`.  `exec` accepts exactly the histories that
obey the event-loop axioms (time monotone; no due timer is passed; a timer runs at its due time; the random
draw lies in the interval the code asked for).  Numbers below are those of the English property. -/
namespace Zc
open Zc.Sched Zc.GenFacts.Browser

/-- the scheduler configuration `_ServiceBrowserBase.__init__` builds: the first-query jitter interval is
the constant `_FIRST_QUERY_DELAY_RANDOM_INTERVAL` -/
def C10.browserCfg (types : List String) (minDelay : Nat) (qtype : Option Bool) : Cfg :=
  { types, minDelay, qtype,
    lo := Gen.firstQueryDelayRandomInterval.headD 0, hi := (Gen.firstQueryDelayRandomInterval.drop 1).headD 0 }

/-- hypothesis "the browser is active and the instance is not closed": record updates and timer passes only -/
def C10.Active (evs : List (Int × Op)) : Prop := ∀ e ∈ evs, e.2.active = true

/-- hypothesis "the record of instance `a` is neither refreshed nor withdrawn during `evs`" -/
def C10.Untouched (a : String) (evs : List (Int × Op)) : Prop := ∀ e ∈ evs, e.2.touches a = false

/-- hypothesis "record updates only": the blocks that can reach the scheduler before `start` (the real browser installs its
listener first — `_async_start` — and calls `query_scheduler.start` later, so pointer updates, e.g. the replay of a warm cache,
arrive on an unstarted scheduler) -/
def C10.IdleOps (evs : List (Int × Op)) : Prop := ∀ e ∈ evs, e.2.idle = true

/-- hypothesis "no pointer update is for a refresh time already past" (`now ≤ created + 75 % TTL`; true of every record just
received, `created = now`; false only for aged records replayed from a warm cache, which the real browser replays before `start`) -/
def C10.Fresh (evs : List (Int × Op)) : Prop := ∀ e ∈ evs, e.2.fresh e.1 = true

open C10

/-- the four start-up queries, when the first is sent at `t1`: at `t1`, 1 s, 4 s and 9 s apart, all types asked,
the first one QU unless a question type is forced, the later ones of the forced type (none = QM) -/
theorem C10_startup_four (types : List String) (minDelay : Nat) (qtype : Option Bool) (t1 : Int) :
    startupSends (browserCfg types minDelay qtype) t1 0 4 =
      [ { t := t1, first := true, qtype := if qtype.isNone then some true else qtype, types := types },
        { t := t1 + 1000, first := false, qtype := qtype, types := types },
        { t := t1 + 5000, first := false, qtype := qtype, types := types },
        { t := t1 + 14000, first := false, qtype := qtype, types := types } ] := by
  cases qtype <;> simp [startupSends, startupSend, startupOffset, sendQtype, browserCfg]

/-- the common opening of every history: record updates on the unstarted scheduler (`pre0`), then `start` -/
theorem C10_opening (c : Cfg) (tS : Int) (pre0 : List (Int × Op)) (t0 : Int) (d : Nat) (evs : List (Int × Op)) (s' : S)
    (outs : List Send) (hidle : IdleOps pre0) (hex : exec c {} tS (pre0 ++ (t0, .start d) :: evs) = some (s', outs)) :
    ∃ s0 s1, exec c {} tS pre0 = some (s0, []) ∧ Idle s0 ∧ (c.lo ≤ d ∧ d ≤ c.hi) ∧ Pre (t0 + d) s1 ∧ s1.startupSent = 0 ∧
      s1.heap = s0.heap ∧ exec c s1 t0 evs = some (s', outs) := by
  obtain ⟨s0, p0, p1, hex0, hex1, rfl⟩ := exec_append c pre0 {} tS _ s' outs hex
  have ⟨hi0, hp0, _⟩ := idle_exec c pre0 {} tS s0 p0 idle_init hidle hex0
  obtain ⟨_, s1, o1, o2, hst, hex2, rfl⟩ := exec_cons hex1
  obtain ⟨hd, hpre, hk0, hh, ho1⟩ := start_from_idle c hi0 hst
  refine ⟨s0, s1, by rw [hex0, hp0], hi0, hd, hpre, hk0, hh, ?_⟩
  rw [hp0, ho1]; simpa using hex2

/-- **Start-up.**  In every history of an active browser — record updates may precede `start` — the first query is sent `d` ms
after the start with `20 ≤ d ≤ 120`, and the queries sent are exactly an initial segment of the start-up schedule
(`C10_startup_four`): either the start-up phase is still running, `k < 4` queries were sent and the history
has not gone beyond the due time of the next one; or all four were sent, the running-phase invariant holds,
and every later query is at least `minDelay` after the fourth. -/
theorem C10_startup (types : List String) (minDelay : Nat) (qtype : Option Bool) (tS : Int) (pre0 : List (Int × Op))
    (t0 : Int) (d : Nat) (evs : List (Int × Op)) (s' : S) (outs : List Send) (hidle : IdleOps pre0) (hact : Active evs)
    (hex : exec (browserCfg types minDelay qtype) {} tS (pre0 ++ (t0, .start d) :: evs) = some (s', outs)) :
    20 ≤ d ∧ d ≤ 120 ∧
    ( (s'.startupSent < 4 ∧ outs = startupSends (browserCfg types minDelay qtype) (t0 + d) 0 s'.startupSent
        ∧ ∀ e ∈ evs, e.1 ≤ t0 + d + startupOffset s'.startupSent)
    ∨ (Post s' ∧ ∃ post, outs = startupSends (browserCfg types minDelay qtype) (t0 + d) 0 4 ++ post
        ∧ (∀ o ∈ post, t0 + d + 14000 + minDelay ≤ o.t) ∧ Spaced minDelay (post.map (·.t))) ) := by
  obtain ⟨s0, s1, _, _, hd, hpre, hk0, _, hex2⟩ := C10_opening _ tS pre0 t0 d evs s' outs hidle hex
  simp only [browserCfg, firstInterval_eq, List.headD_cons, List.drop_succ_cons, List.drop_zero] at hd
  refine ⟨hd.1, hd.2, ?_⟩
  rcases startup_core _ (t0 + d) evs s1 t0 s' outs hpre hact hex2 with ⟨hp', _, ho⟩ | ⟨hp', post, ho, hge, hsp⟩
  · left
    rw [hk0] at ho
    refine ⟨hp'.sent, by simpa using ho, ?_⟩
    exact startup_progress _ (t0 + d) evs s1 t0 s' outs hpre hact hex2 hp'.sent
  · right
    rw [hk0] at ho
    exact ⟨hp', post, by simpa using ho, hge, hsp⟩

/-- **Rate limit.**  After the four start-up queries successive queries of one browser are at least the
configured delay apart (the list is the times of the fourth start-up query and everything after it). -/
theorem C10_rate (types : List String) (minDelay : Nat) (qtype : Option Bool) (tS : Int) (pre0 : List (Int × Op))
    (t0 : Int) (d : Nat) (evs : List (Int × Op)) (s' : S) (outs : List Send) (hidle : IdleOps pre0) (hact : Active evs)
    (hex : exec (browserCfg types minDelay qtype) {} tS (pre0 ++ (t0, .start d) :: evs) = some (s', outs)) :
    Spaced minDelay ((outs.drop 3).map (·.t)) := by
  rcases (C10_startup types minDelay qtype tS pre0 t0 d evs s' outs hidle hact hex).2.2 with ⟨hlt, ho, _⟩ | ⟨_, post, ho, hge, hsp⟩
  · have hk : s'.startupSent = 0 ∨ s'.startupSent = 1 ∨ s'.startupSent = 2 ∨ s'.startupSent = 3 := by omega
    rcases hk with hk | hk | hk | hk <;> rw [ho, hk] <;> simp [startupSends, Spaced]
  · rw [ho]
    simp only [startupSends, List.cons_append, List.nil_append, List.drop_succ_cons, List.drop_zero, List.map_cons]
    refine spaced_cons ?_ hsp
    intro x hx
    rcases List.mem_map.1 hx with ⟨o, ho', rfl⟩
    have := hge o ho'
    simp only [startupSend, startupOffset]
    omega

/-- **The scheduler keeps running.**  While the browser is active and the instance not closed a wake-up is always armed — and
it is armed for a time **not before the last block of the history**, so the loop can always run it (`exec` accepts the `fire`
block at that time): the scheduler is never stuck behind an overdue timer.  Needs `Fresh evs`: after `start` no pointer update
is for a refresh time already past (without it the model arms in the past, a state asyncio would leave by running the pass at
once and `exec` cannot; aged records reach the real scheduler only before `start`, where nothing is armed — `pre0` is
unconstrained). -/
theorem C10_alive (types : List String) (minDelay : Nat) (qtype : Option Bool) (tS : Int) (pre0 : List (Int × Op))
    (t0 : Int) (d : Nat) (evs : List (Int × Op)) (s' : S) (outs : List Send) (hidle : IdleOps pre0) (hact : Active evs)
    (hfresh : Fresh evs)
    (hex : exec (browserCfg types minDelay qtype) {} tS (pre0 ++ (t0, .start d) :: evs) = some (s', outs)) :
    ∃ k due, s'.armed = some (k, due) ∧ lastTime t0 evs ≤ due := by
  obtain ⟨s0, s1, _, _, _, hpre, hk0, _, hex2⟩ := C10_opening _ tS pre0 t0 d evs s' outs hidle hex
  have hsome : s'.armed.isSome = true := by
    rcases startup_core _ (t0 + d) evs s1 t0 s' outs hpre hact hex2 with ⟨hp', _, _⟩ | ⟨hp', _⟩
    · rw [hp'.armed]; rfl
    · rw [hp'.armed]; rfl
  have hahead := ahead_exec _ evs s1 t0 s' outs
    (by intro k due ha; rw [hpre.armed, hk0] at ha; simp only [Option.some.injEq, Prod.mk.injEq, startupOffset] at ha; omega)
    (fun e he => ⟨Or.inl (hact e he), hfresh e he⟩) hex2
  cases ha : s'.armed with
  | none => rw [ha] at hsome; cases hsome
  | some kd => exact ⟨kd.1, kd.2, rfl, hahead kd.1 kd.2 ha⟩

/-- the running-phase invariant is kept by every block of an active browser (so `C10_refresh` applies at
every later point of a history, in particular to the state right after a pass) -/
theorem C10_running_invariant (c : Cfg) (s : S) (clk : Int) (evs : List (Int × Op)) (s' : S) (outs : List Send)
    (h : Post s) (hact : Active evs) (hex : exec c s clk evs = some (s', outs)) : Post s' :=
  (rate_core c evs s clk s' outs h hact hex).1

/-- **Refresh liveness.**  In the running phase, a scheduled query `q` (a live heap entry: the 75 % query of a
learned record, or one of its 10 % follow-ups) whose record is neither refreshed nor withdrawn is served:
a query for its type is sent at some time in `[q.when, q.when + minDelay]` — unless the history has not yet
gone beyond `q.when + minDelay`, in which case `q` is still scheduled and a wake-up is armed
(`Post`).  The hypothesis `hclk` says the last pass was not later than `q.when`; it holds whenever the
record was learned before its own refresh time (`Sched.earliest_le_clock`: the horizon is at most
`now + minDelay`).  In particular a record learned while a wake-up for a much later deadline is armed
(the D7 history) is queried on time. -/
theorem C10_refresh (c : Cfg) (s : S) (clk : Int) (q : Q) (evs : List (Int × Op)) (s' : S) (outs : List Send)
    (h : Post s) (hq : q ∈ s.heap) (hl : q.cancelled = false) (hclk : s.earliest ≤ q.when + c.minDelay)
    (hact : Active evs) (hun : Untouched q.alias evs) (hex : exec c s clk evs = some (s', outs)) :
    (∃ o ∈ outs, q.when ≤ o.t ∧ o.t ≤ q.when + c.minDelay ∧ q.name ∈ o.types)
    ∨ (q ∈ s'.heap ∧ Post s' ∧ ∀ e ∈ evs, e.1 ≤ q.when + c.minDelay) := by
  rcases query_due c q (q.when + c.minDelay) (Int.le_refl _) evs s clk s' outs h hq hl hclk
      (fun e he => ⟨hact e he, hun e he⟩) hex with h1 | ⟨h1, h2, _, h4⟩
  · exact Or.inl h1
  · exact Or.inr ⟨h1, h2, h4⟩

/-- `C10_refresh` for a history that does go beyond the deadline: the query is sent -/
theorem C10_refresh_sent (c : Cfg) (s : S) (clk : Int) (q : Q) (evs : List (Int × Op)) (s' : S) (outs : List Send)
    (h : Post s) (hq : q ∈ s.heap) (hl : q.cancelled = false) (hclk : s.earliest ≤ q.when + c.minDelay)
    (hact : Active evs) (hun : Untouched q.alias evs) (hex : exec c s clk evs = some (s', outs))
    (hbeyond : ∃ e ∈ evs, q.when + c.minDelay < e.1) :
    ∃ o ∈ outs, q.when ≤ o.t ∧ o.t ≤ q.when + c.minDelay ∧ q.name ∈ o.types := by
  rcases C10_refresh c s clk q evs s' outs h hq hl hclk hact hun hex with h1 | ⟨_, _, h3⟩
  · exact h1
  · obtain ⟨e, he, hlt⟩ := hbeyond
    have := h3 e he
    omega

/-- **What a pointer update schedules.**  After a learned or refreshed record (TTL `ttl`, created at `cr`) the
instance has exactly one live entry; it carries the record's TTL and expiry `cr + 1000·ttl`, and is scheduled
within `minDelay` of 75 % of the TTL (`cr + 750·ttl`) — exactly there when the instance had no entry.  Any
earlier schedule of the instance (also one learned under another spelling) is gone. -/
theorem C10_update_entry (c : Cfg) (s : S) (hu : Uniq s.heap) (a n : String) (ttl : Nat) (cr : Int) :
    cnt a (reschedule c s a n ttl cr).heap = 1 ∧
    (∀ q ∈ (reschedule c s a n ttl cr).heap, isEntry a q = true →
      q.ttl = ttl ∧ q.expire = cr + 1000 * ttl ∧
      -(c.minDelay : Int) ≤ cr + 750 * ttl - q.when ∧ cr + 750 * ttl - q.when ≤ c.minDelay) ∧
    (current a s.heap = none → ∃ q ∈ (reschedule c s a n ttl cr).heap,
      isEntry a q = true ∧ q.name = n ∧ q.when = cr + 750 * ttl) := by
  refine ⟨(reschedule_entry c hu a n ttl cr).1, (reschedule_entry c hu a n ttl cr).2, ?_⟩
  intro hnone
  exact ⟨_, reschedule_fresh c a n ttl cr hnone, by simp [isEntry], rfl, firstQuery_when a n ttl cr⟩

/-- **Further 10 % steps until expiry.**  The pass that serves a due entry `q` at time `now` asks its type and
schedules the follow-up at `now + 100·ttl` (10 % of the TTL later) — unless that would not precede the
record's expiry; the running-phase invariant holds again, so `C10_refresh` applies to the follow-up. -/
theorem C10_rescue (c : Cfg) (s : S) (h : Post s) (q : Q) (hq : q ∈ s.heap) (hl : q.cancelled = false)
    (now : Int) (hw : q.when ≤ now) :
    (∃ o ∈ (fireReady c s now false).2, o.t = now ∧ q.name ∈ o.types) ∧
    (q.expire ≤ now + 100 * q.ttl ∨ { q with when := now + 100 * q.ttl } ∈ (fireReady c s now false).1.heap) ∧
    Post (fireReady c s now false).1 :=
  ⟨(fireReady_due c h.sorted hq hl hw).1, (fireReady_due c h.sorted hq hl hw).2, post_fireReady c h now⟩

/-- **No query on an old schedule.**  (i) every reachable state has at most one live entry per instance;
(ii) after a withdrawal the instance has none; (iii) a pass asks only the types of live entries that are due.
Together with `C10_update_entry`: a refreshed or withdrawn record causes no query on its old schedule. -/
theorem C10_no_stale (c : Cfg) :
    (∀ evs s clk s' outs, Uniq s.heap → exec c s clk evs = some (s', outs) → Uniq s'.heap) ∧
    (∀ a heap, cnt a (cancelAlias a heap) = 0) ∧
    (∀ s now, Sorted s.heap → ∀ o ∈ (fireReady c s now false).2, ∀ n ∈ o.types,
        ∃ q ∈ s.heap, q.cancelled = false ∧ q.when ≤ now ∧ q.name = n) :=
  ⟨fun evs s clk s' outs => uniq_exec c evs s clk s' outs, cnt_cancel_same, fun _ now hs => fireReady_types c hs now⟩

/-- the empty scheduler satisfies the one-entry invariant, so (i) covers every history from the start -/
theorem C10_initial_uniq : Uniq ({} : S).heap := by intro a; simp [cnt]

/-- **The whole refresh chain of a scheduled query, from any running state.**  `Chain … n w` (`Zc.Sched.Chain`): a send asking
the type lies in `[w, w + minDelay]`, and — unless the follow-up would not precede the expiry — so does one in
`[p + 100·ttl, … + minDelay]` where `p` is that send's time (10 % of the TTL later), and so on for `n` links; at each link
the alternative is that the history (last block at `lastTime`) has not yet gone beyond that link's deadline.  The clock
hypothesis of `C10_refresh` is discharged here: it follows from `earliest ≤ clk + minDelay` (an invariant of every history,
`Sched.inv_exec` / `Sched.earliest_le_clock`) and `clk ≤ q.when` (the query is not already overdue). -/
theorem C10_chain_entry (c : Cfg) (s : S) (clk : Int) (q : Q) (evs : List (Int × Op)) (s' : S) (outs : List Send) (links : Nat)
    (h : Post s) (hq : q ∈ s.heap) (hl : q.cancelled = false) (hearl : s.earliest ≤ clk + c.minDelay) (hclk : clk ≤ q.when)
    (hact : Active evs) (hun : Untouched q.alias evs) (hex : exec c s clk evs = some (s', outs)) :
    Chain c q.name q.ttl q.expire (lastTime clk evs) outs links q.when :=
  chain_core c q.name q.ttl q.expire evs links s clk s' outs q h hq hl rfl rfl rfl (by omega) (by omega)
    (fun e he => ⟨hact e he, hun e he⟩) hex

/-- **Refresh liveness, whole chain, from the creation of the browser.**  Take any history of an active browser: record updates
before `start` (`pre0`), `start`, any blocks `pre`, then — **at any time after `start`, during the start-up phase or later** — the
pointer record of an instance `a` not seen before (type `n`, TTL `ttl`, created `cr`), then any blocks `evs` in which that record is
neither refreshed nor withdrawn (other records come and go, in any order, with any TTLs — in particular longer-lived ones learned
earlier, the D7 history).  Provided the record's 75 % time `w = cr + 750·ttl` is (`hbefore`) not before the moment it is learned
and (`hlate`) not before the end of the start-up phase `t0 + d + 14 s` (both hold for every record just received: TTL ≥ 1125 s
puts `w` at least 843 s ahead), the type is queried in `[w, w + minDelay]`, again 10 % of the TTL after that query (at most
`minDelay` late), and so on until a follow-up would not precede the expiry `cr + 1000·ttl` — as far as the history extends
(`Chain`, for every number of links).  Records answering the start-up queries are covered (no hypothesis on `t` beyond `hbefore`);
records learned before `start` are `C10_refresh_chain_before_start`.  Not covered, and named: an aged record whose 75 % time is
already past when it is learned, or lies inside the start-up phase (warm cache older than 75 % of the TTL). -/
theorem C10_refresh_chain (types : List String) (minDelay : Nat) (qtype : Option Bool) (tS : Int) (pre0 : List (Int × Op))
    (t0 : Int) (d : Nat) (pre : List (Int × Op)) (t : Int) (a n : String) (ttl : Nat) (cr : Int) (evs : List (Int × Op))
    (s' : S) (outs : List Send) (links : Nat)
    (hidle : IdleOps pre0) (hnew0 : Untouched a pre0) (hpre : Active pre) (hnew : Untouched a pre)
    (hact : Active evs) (hun : Untouched a evs)
    (hbefore : t ≤ cr + 750 * ttl) (hlate : t0 + d + 14000 ≤ cr + 750 * ttl)
    (hex : exec (browserCfg types minDelay qtype) {} tS
      (pre0 ++ (t0, .start d) :: (pre ++ (t, .ptr a n ttl cr) :: evs)) = some (s', outs)) :
    Chain (browserCfg types minDelay qtype) n ttl (cr + 1000 * ttl) (lastTime t evs) outs links (cr + 750 * ttl) := by
  obtain ⟨s0, s1, hex0, _, _, hpre1, _, hheap, hex2⟩ := C10_opening _ tS pre0 t0 d _ s' outs hidle hex
  have hcnt0 : cnt a s0.heap = 0 :=
    noentry_exec _ a pre0 {} tS s0 [] (by simp [cnt]) (fun e he => ⟨Op.active_of_idle (hidle e he), hnew0 e he⟩) hex0
  have hcnt1 : cnt a s1.heap = 0 := by rw [hheap]; exact hcnt0
  obtain ⟨s2, p1, p2, hexpre, hexrest, rfl⟩ := exec_append _ pre s1 t0 _ s' outs hex2
  have hinv := inv_exec _ (t0 + d) pre s1 t0 s2 p1 (Or.inl hpre1) hpre hexpre
  have hcnt2 : cnt a s2.heap = 0 :=
    noentry_exec _ a pre s1 t0 s2 p1 hcnt1 (fun e he => ⟨hpre e he, hnew e he⟩) hexpre
  obtain ⟨hen, s3, q1, o3, hst3, hex3, rfl⟩ := exec_cons hexrest
  simp only [step, Option.some.injEq, Prod.mk.injEq] at hst3
  have hq0 : firstQuery a n ttl cr ∈ s3.heap := by
    rw [← hst3.1]; exact reschedule_fresh _ a n ttl cr (current_none_of_cnt_zero hcnt2)
  have hw := firstQuery_when a n ttl cr
  have hactun : ∀ e ∈ evs, e.2.active = true ∧ e.2.touches (firstQuery a n ttl cr).alias = false :=
    fun e he => ⟨hact e he, hun e he⟩
  rw [← hst3.2]
  refine chain_mono_outs (chain_mono_outs ?_)
  rcases hinv with hp | ⟨hp, hearl⟩
  · -- learned during the start-up phase: the entry waits in the heap until the running phase begins
    have hp3 : Pre (t0 + d) s3 := by rw [← hst3.1]; exact pre_reschedule _ hp a n ttl cr
    have hch := chain_pre _ n ttl (cr + 1000 * ttl) (t0 + d) evs links s3 t s' o3 (firstQuery a n ttl cr) hp3 hq0 rfl rfl rfl
      (firstQuery_expire a n ttl cr) (by rw [hw]; omega) (by rw [hw]; omega) hactun hex3
    rw [hw] at hch; exact hch
  · have hclk2 := (enabled_post hp hen).1
    have hp3 : Post s3 := by rw [← hst3.1]; exact post_reschedule _ hp a n ttl cr
    have he3 : s3.earliest = s2.earliest := by rw [← hst3.1]; simp
    have hch := chain_core _ n ttl (cr + 1000 * ttl) evs links s3 t s' o3 (firstQuery a n ttl cr) hp3 hq0 rfl rfl rfl
      (firstQuery_expire a n ttl cr) (by rw [hw, he3]; simp only [browserCfg] at hearl ⊢; omega) (by rw [hw]; omega)
      hactun hex3
    rw [hw] at hch; exact hch

/-- **… for a record the scheduler is told about before `start`** (the listener is installed first; this is also how the
pointer records of a warm cache arrive, with their original creation time — `hbefore` is not needed here): blocks `pre0a`, the
pointer record, more record updates `pre0b`, `start`, then any blocks leaving the record untouched.  Provided its 75 % time is not
before the end of the start-up phase, the whole chain follows. -/
theorem C10_refresh_chain_before_start (types : List String) (minDelay : Nat) (qtype : Option Bool) (tS : Int)
    (pre0a : List (Int × Op)) (t : Int) (a n : String) (ttl : Nat) (cr : Int) (pre0b : List (Int × Op))
    (t0 : Int) (d : Nat) (evs : List (Int × Op)) (s' : S) (outs : List Send) (links : Nat)
    (hidlea : IdleOps pre0a) (hnew : Untouched a pre0a) (hidleb : IdleOps pre0b) (hunb : Untouched a pre0b)
    (hact : Active evs) (hun : Untouched a evs) (hlate : t0 + d + 14000 ≤ cr + 750 * ttl)
    (hex : exec (browserCfg types minDelay qtype) {} tS
      (pre0a ++ (t, .ptr a n ttl cr) :: (pre0b ++ (t0, .start d) :: evs)) = some (s', outs)) :
    Chain (browserCfg types minDelay qtype) n ttl (cr + 1000 * ttl) (lastTime t0 evs) outs links (cr + 750 * ttl) := by
  obtain ⟨s0, p0, p1, hex0, hex1, rfl⟩ := exec_append _ pre0a {} tS _ s' outs hex
  have ⟨hi0, _, _⟩ := idle_exec _ pre0a {} tS s0 p0 idle_init hidlea hex0
  have hcnt0 : cnt a s0.heap = 0 :=
    noentry_exec _ a pre0a {} tS s0 p0 (by simp [cnt]) (fun e he => ⟨Op.active_of_idle (hidlea e he), hnew e he⟩) hex0
  obtain ⟨_, s1, o1, o2, hst1, hex2, rfl⟩ := exec_cons hex1
  have ⟨hi1, _⟩ := idle_step _ hi0 (op := .ptr a n ttl cr) rfl hst1
  simp only [step, Option.some.injEq, Prod.mk.injEq] at hst1
  have hq1 : firstQuery a n ttl cr ∈ s1.heap := by
    rw [← hst1.1]; exact reschedule_fresh _ a n ttl cr (current_none_of_cnt_zero hcnt0)
  obtain ⟨s2, p2, p3, hexb, hexrest, rfl⟩ := exec_append _ pre0b s1 t _ s' o2 hex2
  have ⟨hi2, _, hkeep⟩ := idle_exec _ pre0b s1 t s2 p2 hi1 hidleb hexb
  have hq2 : firstQuery a n ttl cr ∈ s2.heap := hkeep _ hq1 (fun e he => hunb e he)
  obtain ⟨_, s3, o3, o4, hst3, hex4, rfl⟩ := exec_cons hexrest
  obtain ⟨_, hpre3, _, hheap3, _⟩ := start_from_idle _ hi2 hst3
  have hq3 : firstQuery a n ttl cr ∈ s3.heap := by rw [hheap3]; exact hq2
  have hw := firstQuery_when a n ttl cr
  have hch := chain_pre _ n ttl (cr + 1000 * ttl) (t0 + d) evs links s3 t0 s' o4 (firstQuery a n ttl cr) hpre3 hq3 rfl rfl rfl
    (firstQuery_expire a n ttl cr) (by rw [hw]; omega) (by rw [hw]; omega) (fun e he => ⟨hact e he, hun e he⟩) hex4
  rw [hw] at hch
  exact chain_mono_outs (chain_mono_outs (chain_mono_outs (chain_mono_outs hch)))

/-! ### refreshed records (second review, finding 1)

`C10_refresh_chain` is about an instance never seen before.  For a record that **refreshes** a known instance the scheduler may
keep the instance's existing entry (churn rule, `reschedule_ptr_first_refresh`: kept when the new 75 % time is within `minDelay`
of the entry's time), so the chain starts at the kept time `w'` with `|w' − w| ≤ minDelay`, `w = cr + 750·ttl`, and the first
query comes in `[w', w' + minDelay] ⊆ [w − minDelay, w + 2·minDelay]`.  That bound is tight: `C10_refreshed_one_delay_refuted`
is a history in which the refresh query is sent `minDelay + 8 999 ms` after `w` (delay 10 s).  The English says "each at most the
configured inter-query delay late": the one-delay bound holds exactly when the kept entry is not *later* than `w`
(`C10_refreshed_one_delay_partial`); the complementary class is the finding `C10:refresh-late-kept-schedule`
(`known_findings.json`).  Readings stated here: (1) "at about 75 percent" admits a query up to `minDelay` *early* for a kept
schedule (the English bounds lateness only); (2) "again at further 10 percent steps" is read from the query actually sent — each
follow-up is due 10 % of the TTL after the previous query and is at most `minDelay` late with respect to that (`Chain`); measured
against the absolute 85 % / 95 % instants the lateness of the earlier queries adds up. -/

/-- hypothesis "every pointer update of instance `a` in `evs` carries the type `n`" (the kept entry keeps the `name` it was created
with; an instance name does NOT determine the owner name — a subtype pointer names the same instance: finding
`C10:alias-shared-by-two-types`) -/
def C10.SameType (a n : String) (evs : List (Int × Op)) : Prop := ∀ e ∈ evs, e.2.named a n = true

/-- hypothesis of the one-delay bound — a sufficient condition, broader than the complement of the finding's signature (it also
excludes an entry later than `w + minDelay`, which is cancelled and re-made at `w`, and a kept later entry that no other pass
delays; in both the one-delay bound holds, the first by `C10_refreshed_chain` and arithmetic): when the refresh arrives, the instance's
live entry — if it has one — is not scheduled *after* the new 75 % time `w` -/
def C10.NotKeptLater (c : Cfg) (tS : Int) (hist : List (Int × Op)) (a : String) (w : Int) : Prop :=
  ∀ s2 o2 cur, exec c {} tS hist = some (s2, o2) → current a s2.heap = some cur → cur.when ≤ w

open C10 in
/-- **The refresh chain of a refreshed record, true bound.**  Any history of an active browser in which instance `a` may have been
seen, refreshed, withdrawn any number of times (`pre0`, `pre`; always under the type `n`), then a pointer record for it (TTL `ttl`,
created `cr`) at `t`, at least `minDelay` before its 75 % time `w = cr + 750·ttl` (true of every record just received: TTL ≥ 1125 s
puts `w` 843 s ahead, delays are ≤ 60 s) and `w` at least `minDelay` after the start-up phase, then blocks leaving it untouched.
Then there is a time `w'` within `minDelay` of `w` — `w` itself, or the time of the entry the instance had when the refresh arrived
(kept) — from which the whole chain runs with the refreshed TTL and expiry: a query for `n` in `[w', w' + minDelay]`, the next one
10 % of the TTL after it (at most `minDelay` late), … until expiry.  In particular the first query lies in
`[w − minDelay, w + 2·minDelay]`. -/
theorem C10_refreshed_chain (types : List String) (minDelay : Nat) (qtype : Option Bool) (tS : Int) (pre0 : List (Int × Op))
    (t0 : Int) (d : Nat) (pre : List (Int × Op)) (t : Int) (a n : String) (ttl : Nat) (cr : Int) (evs : List (Int × Op))
    (s' : S) (outs : List Send) (links : Nat)
    (hidle : IdleOps pre0) (hn0 : SameType a n pre0) (hpre : Active pre) (hn : SameType a n pre)
    (hact : Active evs) (hun : Untouched a evs)
    (hbefore : t + minDelay ≤ cr + 750 * ttl) (hlate : t0 + d + 14000 + minDelay ≤ cr + 750 * ttl)
    (hex : exec (browserCfg types minDelay qtype) {} tS
      (pre0 ++ (t0, .start d) :: (pre ++ (t, .ptr a n ttl cr) :: evs)) = some (s', outs)) :
    ∃ w', cr + 750 * ttl - minDelay ≤ w' ∧ w' ≤ cr + 750 * ttl + minDelay ∧
      (w' = cr + 750 * ttl ∨ ∃ s2 o2 cur, exec (browserCfg types minDelay qtype) {} tS (pre0 ++ (t0, .start d) :: pre) = some (s2, o2) ∧
        current a s2.heap = some cur ∧ w' = cur.when) ∧
      Chain (browserCfg types minDelay qtype) n ttl (cr + 1000 * ttl) (lastTime t evs) outs links w' := by
  have hsplit : pre0 ++ (t0, Op.start d) :: (pre ++ (t, Op.ptr a n ttl cr) :: evs) =
      (pre0 ++ (t0, Op.start d) :: pre) ++ (t, Op.ptr a n ttl cr) :: evs := by simp
  rw [hsplit] at hex
  obtain ⟨s2, oP, oT, hexP, hexT, rfl⟩ := exec_append _ _ {} tS _ s' outs hex
  rw [lastTime_append] at hexT
  -- facts about the state in which the refresh arrives
  have hu2 : Uniq s2.heap := uniq_exec _ _ {} tS s2 oP C10_initial_uniq hexP
  have hname2 : NameInv a n s2.heap := by
    refine nameinv_exec _ a n _ {} tS s2 oP (by intro q hq; simp at hq) ?_ hexP
    intro e he
    rcases List.mem_append.1 he with he | he
    · exact hn0 e he
    · rcases List.mem_cons.1 he with rfl | he
      · rfl
      · exact hn e he
  obtain ⟨s0, s1, _, _, _, hpre1, _, _, hexpre⟩ := C10_opening _ tS pre0 t0 d pre s2 oP hidle hexP
  have hinv := inv_exec _ (t0 + d) pre s1 t0 s2 oP (Or.inl hpre1) hpre hexpre
  obtain ⟨hen, s3, o3, o4, hst3, hex3, rfl⟩ := exec_cons hexT
  simp only [step, Option.some.injEq, Prod.mk.injEq] at hst3
  -- the instance's entry after the refresh
  have hent := reschedule_entry (browserCfg types minDelay qtype) hu2 a n ttl cr
  have hwhen := reschedule_entry_when (browserCfg types minDelay qtype) hu2 a n ttl cr
  obtain ⟨q, hq, hqe⟩ := exists_entry_of_cnt_pos (a := a) (h := (reschedule (browserCfg types minDelay qtype) s2 a n ttl cr).heap)
    (by rw [hent.1]; exact Nat.one_pos)
  obtain ⟨hqttl, hqexp, hlo, hhi⟩ := hent.2 q hq hqe
  have hql : q.cancelled = false ∧ q.alias = a := by simpa [isEntry] using hqe
  have hqname : q.name = n := by
    have h3 : NameInv a n (reschedule (browserCfg types minDelay qtype) s2 a n ttl cr).heap :=
      nameinv_step (browserCfg types minDelay qtype) hname2 (t := t) (op := .ptr a n ttl cr) (by simp [Op.named]) rfl
    exact h3 q hq hql.2
  have hmd : (browserCfg types minDelay qtype).minDelay = minDelay := rfl
  rw [hmd] at hlo hhi
  have hq3 : q ∈ s3.heap := by rw [← hst3.1]; exact hq
  have hactun : ∀ e ∈ evs, e.2.active = true ∧ e.2.touches q.alias = false :=
    fun e he => ⟨hact e he, by rw [hql.2]; exact hun e he⟩
  refine ⟨q.when, by omega, by omega, ?_, ?_⟩
  · rcases hwhen q hq hqe with h | ⟨cur, hc, h⟩
    · exact Or.inl h
    · exact Or.inr ⟨s2, oP, cur, hexP, hc, h⟩
  · rw [← hst3.2]
    refine chain_mono_outs (chain_mono_outs ?_)
    rcases hinv with hp | ⟨hp, hearl⟩
    · have hp3 : Pre (t0 + d) s3 := by rw [← hst3.1]; exact pre_reschedule _ hp a n ttl cr
      exact chain_pre _ n ttl (cr + 1000 * ttl) (t0 + d) evs links s3 t s' o4 q hp3 hq3 hql.1 hqname hqttl hqexp
        (by omega) (by rw [hmd]; omega) hactun hex3
    · have hclk2 := (enabled_post hp hen).1
      have hp3 : Post s3 := by rw [← hst3.1]; exact post_reschedule _ hp a n ttl cr
      have he3 : s3.earliest = s2.earliest := by rw [← hst3.1]; simp
      exact chain_core _ n ttl (cr + 1000 * ttl) evs links s3 t s' o4 q hp3 hq3 hql.1 hqname hqttl hqexp
        (by rw [he3, hmd]; rw [hmd] at hearl; omega) (by rw [hmd]; omega) hactun hex3

/-- the sentence "at most the configured inter-query delay late" for the refresh query of a refreshed record, at full strength:
a query for the type in `[w − minDelay, w + minDelay]` (or the history has not gone beyond `w + minDelay`) -/
def C10_refreshed_one_delay_full : Prop :=
  ∀ (types : List String) (minDelay : Nat) (qtype : Option Bool) (tS : Int) (pre0 : List (Int × Op))
    (t0 : Int) (d : Nat) (pre : List (Int × Op)) (t : Int) (a n : String) (ttl : Nat) (cr : Int) (evs : List (Int × Op))
    (s' : S) (outs : List Send),
    IdleOps pre0 → SameType a n pre0 → Active pre → SameType a n pre → Active evs → Untouched a evs →
    t + minDelay ≤ cr + 750 * ttl → t0 + d + 14000 + minDelay ≤ cr + 750 * ttl →
    exec (browserCfg types minDelay qtype) {} tS (pre0 ++ (t0, .start d) :: (pre ++ (t, .ptr a n ttl cr) :: evs)) = some (s', outs) →
    lastTime t evs ≤ cr + 750 * ttl + minDelay ∨
      ∃ o ∈ outs, cr + 750 * ttl - minDelay ≤ o.t ∧ o.t ≤ cr + 750 * ttl + minDelay ∧ n ∈ o.types

open C10 in
/-- **`_partial`** — holds when the instance's entry, at the moment the refresh arrives, is not scheduled after the new 75 % time
(`NotKeptLater`; in particular for an instance without an entry, and whenever the refreshed record's 75 % time is not earlier than
the old schedule — the usual refresh with an equal or longer TTL).  Not covered, among other cases, the finding
`C10:refresh-late-kept-schedule`: entry kept at `k ∈ (w, w + minDelay]`, another pass inside `(k − minDelay, k)`. -/
theorem C10_refreshed_one_delay_partial (types : List String) (minDelay : Nat) (qtype : Option Bool) (tS : Int) (pre0 : List (Int × Op))
    (t0 : Int) (d : Nat) (pre : List (Int × Op)) (t : Int) (a n : String) (ttl : Nat) (cr : Int) (evs : List (Int × Op))
    (s' : S) (outs : List Send)
    (hidle : IdleOps pre0) (hn0 : SameType a n pre0) (hpre : Active pre) (hn : SameType a n pre)
    (hact : Active evs) (hun : Untouched a evs)
    (hbefore : t + minDelay ≤ cr + 750 * ttl) (hlate : t0 + d + 14000 + minDelay ≤ cr + 750 * ttl)
    (hkept : NotKeptLater (browserCfg types minDelay qtype) tS (pre0 ++ (t0, .start d) :: pre) a (cr + 750 * ttl))
    (hex : exec (browserCfg types minDelay qtype) {} tS
      (pre0 ++ (t0, .start d) :: (pre ++ (t, .ptr a n ttl cr) :: evs)) = some (s', outs)) :
    lastTime t evs ≤ cr + 750 * ttl + minDelay ∨
      ∃ o ∈ outs, cr + 750 * ttl - minDelay ≤ o.t ∧ o.t ≤ cr + 750 * ttl + minDelay ∧ n ∈ o.types := by
  obtain ⟨w', hlo, _, hsrc, hch⟩ := C10_refreshed_chain types minDelay qtype tS pre0 t0 d pre t a n ttl cr evs s' outs 1
    hidle hn0 hpre hn hact hun hbefore hlate hex
  have hle : w' ≤ cr + 750 * ttl := by
    rcases hsrc with h | ⟨s2, o2, cur, h1, h2, h3⟩
    · omega
    · rw [h3]; exact hkept s2 o2 cur h1 h2
  have hmd : (browserCfg types minDelay qtype).minDelay = minDelay := rfl
  rcases hch with h | ⟨o, ho, h1, h2, h3, _⟩
  · left; rw [hmd] at h; omega
  · right; rw [hmd] at h2; exact ⟨o, ho, by omega, by omega, h3⟩

/-- the witness history (delay 10 s, two types): instance `a` of type `_x` learned at 100 ms with TTL 4500 s (75 % time 3 375 100),
refreshed at 2 522 350 with TTL 1125 s (new 75 % time `w` = 3 366 100; the old schedule, 9 s later, is kept); instance `b` of type
`_y` learned at 2 531 349 with TTL 1125 s (75 % time 3 375 099, one millisecond before `a`'s kept schedule).  The pass at
3 375 099 asks `_y`; the rate limit moves the next pass to 3 385 099, where `_x` is asked: 18 999 ms after `w`. -/
def C10.lateWitness : List (Int × Op) :=
  [(50, .fire false), (100, .ptr "a" "_x" 4500 100), (1050, .fire false), (5050, .fire false), (14050, .fire false), (24050, .fire false)]

open C10 in
/-- **`_refuted`**: the full one-delay statement fails at `lateWitness` (reproduced on the real scheduler: `corpus/C10/refresh-late-kept-schedule.json`) -/
theorem C10_refreshed_one_delay_refuted : ¬ C10_refreshed_one_delay_full := by
  intro h
  have hs : (exec (browserCfg ["_x", "_y"] 10000 none) {} 0
      ([] ++ (0, .start 50) :: (lateWitness ++ (2522350, .ptr "a" "_x" 1125 2522350) ::
        [(2531349, .ptr "b" "_y" 1125 2531349), (3375099, .fire false), (3385099, .fire false)]))).map
        (fun r => r.2.map (fun o => (o.t, o.types))) =
      some [(50, ["_x", "_y"]), (1050, ["_x", "_y"]), (5050, ["_x", "_y"]), (14050, ["_x", "_y"]), (3375099, ["_y"]), (3385099, ["_x"])] := by
    decide
  cases hx : exec (browserCfg ["_x", "_y"] 10000 none) {} 0
      ([] ++ (0, .start 50) :: (lateWitness ++ (2522350, .ptr "a" "_x" 1125 2522350) ::
        [(2531349, .ptr "b" "_y" 1125 2531349), (3375099, .fire false), (3385099, .fire false)])) with
  | none => rw [hx] at hs; cases hs
  | some p =>
    obtain ⟨s', outs⟩ := p
    rw [hx] at hs
    simp only [Option.map_some, Option.some.injEq] at hs
    have := h ["_x", "_y"] 10000 none 0 [] 0 50 lateWitness 2522350 "a" "_x" 1125 2522350
      [(2531349, .ptr "b" "_y" 1125 2531349), (3375099, .fire false), (3385099, .fire false)] s' outs
      (by intro e he; cases he) (by intro e he; cases he) (by unfold Active lateWitness; decide) (by unfold SameType lateWitness; decide)
      (by unfold Active; decide) (by unfold Untouched; decide) (by decide) (by decide) hx
    rcases this with h1 | ⟨o, ho, h1, h2, h3⟩
    · revert h1; decide
    · have hm : (o.t, o.types) ∈ outs.map (fun o => (o.t, o.types)) := List.mem_map_of_mem ho
      rw [hs] at hm
      simp only [List.mem_cons, Prod.mk.injEq, List.not_mem_nil, or_false] at hm
      rcases hm with ⟨e1, e2⟩ | ⟨e1, e2⟩ | ⟨e1, e2⟩ | ⟨e1, e2⟩ | ⟨e1, e2⟩ | ⟨e1, e2⟩
      all_goals first
        | (rw [e1] at h1 h2; revert h1 h2; decide)
        | (rw [e2] at h3; revert h3; decide)

/-- the hypotheses of `C10_refreshed_chain` / `C10_refreshed_one_delay_partial` are satisfiable: at `lateWitness` all but
`NotKeptLater` hold (previous example); `NotKeptLater` holds e.g. for the same history with the refresh carrying TTL 4500 again
(new 75 % time 5 897 350 ≥ old schedule) -/
example : C10.NotKeptLater (browserCfg ["_x", "_y"] 10000 none) 0 ([] ++ (0, .start 50) :: C10.lateWitness) "a" (2522350 + 750 * (4500 : Nat)) := by
  intro s2 o2 cur h1 h2
  have hw : ((exec (browserCfg ["_x", "_y"] 10000 none) {} 0 ([] ++ (0, .start 50) :: C10.lateWitness)).bind
      (fun r => current "a" r.1.heap)).map (·.when) = some 3375100 := by decide
  rw [h1] at hw
  simp only [Option.bind_some, h2, Option.map_some, Option.some.injEq] at hw
  omega

/-- `SameType`, `Active`, `Untouched` and the two arithmetic hypotheses of `C10_refreshed_chain` hold at the witness history -/
example : C10.SameType "a" "_x" C10.lateWitness ∧ C10.Active C10.lateWitness ∧
    C10.Untouched "a" [(2531349, Op.ptr "b" "_y" 1125 2531349), (3375099, .fire false), (3385099, .fire false)] ∧
    (2522350 : Int) + (10000 : Nat) ≤ 2522350 + 750 * (1125 : Nat) ∧ (0 : Int) + (50 : Nat) + 14000 + (10000 : Nat) ≤ 2522350 + 750 * (1125 : Nat) := by
  unfold C10.SameType C10.Active C10.Untouched C10.lateWitness
  decide

/-- `C10_refreshed_chain` **without** the hypothesis `SameType` — the statement one would want: whatever was heard about instance `a`
before, the record just learned is asked for under its own owner name `n` -/
def C10_refreshed_chain_any_type_full : Prop :=
  ∀ (types : List String) (minDelay : Nat) (qtype : Option Bool) (tS : Int) (pre0 : List (Int × Op))
    (t0 : Int) (d : Nat) (pre : List (Int × Op)) (t : Int) (a n : String) (ttl : Nat) (cr : Int) (evs : List (Int × Op))
    (s' : S) (outs : List Send) (links : Nat),
    IdleOps pre0 → Active pre → Active evs → Untouched a evs →
    t + minDelay ≤ cr + 750 * ttl → t0 + d + 14000 + minDelay ≤ cr + 750 * ttl →
    exec (browserCfg types minDelay qtype) {} tS (pre0 ++ (t0, .start d) :: (pre ++ (t, .ptr a n ttl cr) :: evs)) = some (s', outs) →
    ∃ w', cr + 750 * ttl - minDelay ≤ w' ∧ w' ≤ cr + 750 * ttl + minDelay ∧
      Chain (browserCfg types minDelay qtype) n ttl (cr + 1000 * ttl) (lastTime t evs) outs links w'

open C10 in
/-- **`_refuted`** (finding `C10:alias-shared-by-two-types`; the scheduler keys its entries by the instance name alone, and a
browser of `_x` is also concerned by the subtype pointer `_p._sub._x → a`): instance `a` is learned under `_x` at 20 s and under the
subtype `_p` at 25 s; the second update *keeps* the first record's entry, question name included, so the passes at 863.75 s and
976.25 s ask `_x` and the subtype record is never asked for.  `SameType` is the hypothesis that excludes this (a sufficient
condition, broader than the finding: it also excludes an earlier update under another type whose entry has long been served or
cancelled). -/
theorem C10_refreshed_chain_any_type_refuted : ¬ C10_refreshed_chain_any_type_full := by
  intro h
  have hs : (exec (browserCfg ["_x"] 10000 none) {} 0
      ([] ++ (0, .start 50) :: ([(50, Op.fire false), (1050, .fire false), (5050, .fire false), (14050, .fire false),
          (20000, .ptr "a" "_x" 1125 20000), (24050, .fire false)] ++ (25000, .ptr "a" "_p" 1125 25000) ::
        [(863750, .fire false), (976250, .fire false)]))).map (fun r => r.2.map (fun o => (o.t, o.types))) =
      some [(50, ["_x"]), (1050, ["_x"]), (5050, ["_x"]), (14050, ["_x"]), (863750, ["_x"]), (976250, ["_x"])] := by
    decide
  cases hx : exec (browserCfg ["_x"] 10000 none) {} 0
      ([] ++ (0, .start 50) :: ([(50, Op.fire false), (1050, .fire false), (5050, .fire false), (14050, .fire false),
          (20000, .ptr "a" "_x" 1125 20000), (24050, .fire false)] ++ (25000, .ptr "a" "_p" 1125 25000) ::
        [(863750, .fire false), (976250, .fire false)])) with
  | none => rw [hx] at hs; cases hs
  | some p =>
    obtain ⟨s', outs⟩ := p
    rw [hx] at hs
    simp only [Option.map_some, Option.some.injEq] at hs
    obtain ⟨w', h1, h2, hch⟩ := h ["_x"] 10000 none 0 [] 0 50 _ 25000 "a" "_p" 1125 25000
      [(863750, .fire false), (976250, .fire false)] s' outs 1
      (by intro e he; cases he) (by unfold Active; decide) (by unfold Active; decide) (by unfold Untouched; decide) (by decide) (by decide) hx
    have hmd : (browserCfg ["_x"] 10000 none).minDelay = 10000 := rfl
    rcases hch with hH | ⟨o, ho, _, _, h3, _⟩
    · rw [hmd] at hH
      have : lastTime 25000 [(863750, Op.fire false), (976250, Op.fire false)] = 976250 := rfl
      rw [this] at hH
      omega
    · have hm : (o.t, o.types) ∈ outs.map (fun o => (o.t, o.types)) := List.mem_map_of_mem ho
      rw [hs] at hm
      simp only [List.mem_cons, Prod.mk.injEq, List.not_mem_nil, or_false] at hm
      rcases hm with ⟨_, e2⟩ | ⟨_, e2⟩ | ⟨_, e2⟩ | ⟨_, e2⟩ | ⟨_, e2⟩ | ⟨_, e2⟩
      all_goals (rw [e2] at h3; revert h3; decide)

/-! ### "no service is reported Removed by expiry without refresh attempts having been made" — per instance

The browser reports `Removed` by expiry in the block in which `async_update_records` finds the cached pointer record expired
(`DNSRecord.is_expired`, the cache's expiry test: C05's purge hands exactly the records with `created + 1000·ttl ≤ now` to the
listeners, `C05_purge_exact` / `C05_purge_listeners`) and calls `cancel_ptr_refresh` — in the model a block `(te, cancel a)` with
`is_expired cr ttl te`.  The theorems say what has been sent by then, for **that instance's own schedule** (not "some query for the
type"). -/

open C10 in
/-- **Removed by expiry only after the refresh attempts.**  Any history as in `C10_refreshed_chain` (the record of instance `a`,
TTL `ttl`, created `cr`, seen for the first time or as a refresh, then left untouched) that ends with the block reporting its expiry
at `te` (`is_expired cr ttl te`).  Then the instance's whole chain has been carried out **before the expiry** `E = cr + 1000·ttl`:
starting at `w'` within `minDelay` of 75 %, every link — the query in `[w', w' + minDelay]`, the follow-up 10 % of the TTL after
it, … — has been sent, up to the first link whose deadline `wₖ + minDelay` is not before `E` (`Chain` with horizon `E`). -/
theorem C10_removed_after_attempts (types : List String) (minDelay : Nat) (qtype : Option Bool) (tS : Int) (pre0 : List (Int × Op))
    (t0 : Int) (d : Nat) (pre : List (Int × Op)) (t : Int) (a n : String) (ttl : Nat) (cr : Int) (evs : List (Int × Op)) (te : Int)
    (s' : S) (outs : List Send) (links : Nat)
    (hidle : IdleOps pre0) (hn0 : SameType a n pre0) (hpre : Active pre) (hn : SameType a n pre)
    (hact : Active evs) (hun : Untouched a evs)
    (hbefore : t + minDelay ≤ cr + 750 * ttl) (hlate : t0 + d + 14000 + minDelay ≤ cr + 750 * ttl)
    (hexp : Gen.Dns.is_expired cr ttl te = true)
    (hex : exec (browserCfg types minDelay qtype) {} tS
      (pre0 ++ (t0, .start d) :: (pre ++ (t, .ptr a n ttl cr) :: (evs ++ [(te, .cancel a)]))) = some (s', outs)) :
    ∃ w', cr + 750 * ttl - minDelay ≤ w' ∧ w' ≤ cr + 750 * ttl + minDelay ∧
      Chain (browserCfg types minDelay qtype) n ttl (cr + 1000 * ttl) (cr + 1000 * ttl) outs links w' := by
  have hE : cr + 1000 * (ttl : Int) ≤ te := (is_expired_iff _ _ _).1 hexp
  have hsplit : ∀ x : Int × Op, pre0 ++ (t0, Op.start d) :: (pre ++ (t, Op.ptr a n ttl cr) :: (evs ++ [x])) =
      (pre0 ++ (t0, Op.start d) :: (pre ++ (t, Op.ptr a n ttl cr) :: evs)) ++ [x] := by intro x; simp
  rw [hsplit] at hex
  obtain ⟨s'', hex'⟩ := exec_swap_last_cancel _ _ {} tS te a (a ++ "!") s' outs hex
  rw [← hsplit] at hex'
  have hact' : Active (evs ++ [(te, Op.cancel (a ++ "!"))]) := by
    intro e he
    rcases List.mem_append.1 he with he | he
    · exact hact e he
    · simp only [List.mem_singleton] at he; subst he; rfl
  have hun' : Untouched a (evs ++ [(te, Op.cancel (a ++ "!"))]) := by
    intro e he
    rcases List.mem_append.1 he with he | he
    · exact hun e he
    · simp only [List.mem_singleton] at he; subst he; exact append_bang_ne a
  obtain ⟨w', h1, h2, _, hch⟩ := C10_refreshed_chain types minDelay qtype tS pre0 t0 d pre t a n ttl cr _ s'' outs links
    hidle hn0 hpre hn hact' hun' hbefore hlate hex'
  have hlt : lastTime t (evs ++ [(te, Op.cancel (a ++ "!"))]) = te := by
    rw [lastTime_append]; rfl
  rw [hlt] at hch
  exact ⟨w', h1, h2, chain_mono_H hE hch⟩

open C10 in
/-- … in particular **at least one refresh query of the instance's own schedule strictly before the expiry**, whenever a quarter of
the TTL exceeds two delays (always, within the property's quantifier: TTL ≥ 1125 s gives 281 s, delays are ≤ 60 s): a query for
its type in `[w − minDelay, w + 2·minDelay]`, `w = cr + 750·ttl`.  A second and third attempt follow from `C10_removed_after_attempts`
with `links = 2, 3` when `150·ttl > 3·minDelay`, resp. `50·ttl > 4·minDelay` (ms). -/
theorem C10_removed_after_attempt (types : List String) (minDelay : Nat) (qtype : Option Bool) (tS : Int) (pre0 : List (Int × Op))
    (t0 : Int) (d : Nat) (pre : List (Int × Op)) (t : Int) (a n : String) (ttl : Nat) (cr : Int) (evs : List (Int × Op)) (te : Int)
    (s' : S) (outs : List Send)
    (hidle : IdleOps pre0) (hn0 : SameType a n pre0) (hpre : Active pre) (hn : SameType a n pre)
    (hact : Active evs) (hun : Untouched a evs)
    (hbefore : t + minDelay ≤ cr + 750 * ttl) (hlate : t0 + d + 14000 + minDelay ≤ cr + 750 * ttl)
    (hexp : Gen.Dns.is_expired cr ttl te = true) (hroom : 2 * minDelay < 250 * ttl)
    (hex : exec (browserCfg types minDelay qtype) {} tS
      (pre0 ++ (t0, .start d) :: (pre ++ (t, .ptr a n ttl cr) :: (evs ++ [(te, .cancel a)]))) = some (s', outs)) :
    ∃ o ∈ outs, cr + 750 * ttl - minDelay ≤ o.t ∧ o.t ≤ cr + 750 * ttl + 2 * minDelay ∧ o.t < cr + 1000 * ttl ∧ n ∈ o.types := by
  obtain ⟨w', h1, h2, hch⟩ := C10_removed_after_attempts types minDelay qtype tS pre0 t0 d pre t a n ttl cr evs te s' outs 1
    hidle hn0 hpre hn hact hun hbefore hlate hexp hex
  have hmd : (browserCfg types minDelay qtype).minDelay = minDelay := rfl
  rcases hch with h | ⟨o, ho, h3, h4, h5, _⟩
  · rw [hmd] at h; omega
  · rw [hmd] at h4; exact ⟨o, ho, by omega, by omega, by omega, h5⟩

/-- non-vacuity: a history accepted by the loop axioms in which a record expires unanswered — 75 %, 85 %, 95 % queries, idle passes, then the
`cancel` block at the expiry instant — and the hypotheses of `C10_removed_after_attempt` for it -/
example :
    ((exec (browserCfg ["_x"] 10000 none) {} 0
      ([] ++ (0, .start 50) :: ([(50, Op.fire false), (1050, .fire false), (5050, .fire false), (14050, .fire false)] ++
        (20000, .ptr "a" "_x" 1125 20000) :: ([(24050, Op.fire false), (863750, .fire false), (976250, .fire false), (1088750, .fire false),
          (1098750, .fire false), (1108750, .fire false), (1118750, .fire false), (1128750, .fire false), (1138750, .fire false)] ++
          [(1145000, .cancel "a")])))).map (fun r => r.2.map (·.t))) = some [50, 1050, 5050, 14050, 863750, 976250, 1088750] ∧
    Gen.Dns.is_expired 20000 (1125 : Nat) 1145000 = true ∧ 2 * (10000 : Nat) < 250 * (1125 : Nat) ∧
    (20000 : Int) + (10000 : Nat) ≤ 20000 + 750 * (1125 : Nat) := by
  decide

/-- `Chain` unfolded for the first two links, for readers: the 75 % query and the 85 % one -/
example (c : Cfg) (name : String) (ttl : Nat) (expire H : Int) (outs : List Send) (w : Int) :
    Chain c name ttl expire H outs 2 w ↔
      (H ≤ w + c.minDelay ∨ ∃ o ∈ outs, w ≤ o.t ∧ o.t ≤ w + c.minDelay ∧ name ∈ o.types ∧
        (expire ≤ o.t + 100 * ttl ∨
          (H ≤ o.t + 100 * ttl + c.minDelay ∨ ∃ o' ∈ outs, o.t + 100 * ttl ≤ o'.t ∧ o'.t ≤ o.t + 100 * ttl + c.minDelay ∧ name ∈ o'.types ∧
            (expire ≤ o'.t + 100 * ttl ∨ True)))) := by
  simp [Chain]

/-! ### the hypotheses are satisfiable (non-vacuity) -/

/-- a history accepted by the loop axioms: start, the four start-up queries, a 4500 s record learned at
20 s, a 1200 s record learned at 60 s (D7), the pass at 24.05 s, and the refresh pass of the short record -/
example : (exec (browserCfg ["_x._tcp.local."] 10000 none) {} 0
    [(0, .start 50), (50, .fire false), (1050, .fire false), (5050, .fire false), (14050, .fire false),
     (20000, .ptr "a" "_x._tcp.local." 4500 20000), (24050, .fire false),
     (60000, .ptr "b" "_x._tcp.local." 1200 60000), (960000, .fire false)]).isSome = true := by decide

/-- … in which the short-lived record is queried at exactly 75 % of its TTL (960 s) -/
example : ((exec (browserCfg ["_x._tcp.local."] 10000 none) {} 0
    [(0, .start 50), (50, .fire false), (1050, .fire false), (5050, .fire false), (14050, .fire false),
     (20000, .ptr "a" "_x._tcp.local." 4500 20000), (24050, .fire false),
     (60000, .ptr "b" "_x._tcp.local." 1200 60000), (960000, .fire false)]).map (fun r => r.2.map (·.t)))
    = some [50, 1050, 5050, 14050, 960000] := by decide

/-- the hypotheses of `C10_refresh_chain` hold for that history (`pre` = start-up queries, the long-lived record and a pass;
the short-lived record `b` is learned at 60 s, before its 75 % time 960 s, after the start-up phase) -/
example :
    Active [(50, Op.fire false), (1050, .fire false), (5050, .fire false), (14050, .fire false),
            (20000, .ptr "a" "_x._tcp.local." 4500 20000), (24050, .fire false)] ∧
    Untouched "b" [(50, Op.fire false), (1050, .fire false), (5050, .fire false), (14050, .fire false),
            (20000, .ptr "a" "_x._tcp.local." 4500 20000), (24050, .fire false)] ∧
    Active [(960000, Op.fire false)] ∧ Untouched "b" [(960000, Op.fire false)] ∧
    (0 : Int) + (50 : Nat) + 14000 < 60000 ∧ (60000 : Int) ≤ 60000 + 750 * (1200 : Nat) := by
  unfold Active Untouched
  decide

/-- a history in which the scheduler is told about an aged cached record before `start` and learns another record 10 ms
after the first start-up query (during the start-up phase) is accepted; `IdleOps`, `Fresh` and the hypotheses `hbefore`/`hlate`
of `C10_refresh_chain` hold for the second record (75 % time 843 s after it is learned, start-up ends at 14.055 s) -/
example :
    (exec (browserCfg ["_x._tcp.local."] 10000 none) {} 0
      ([(0, Op.ptr "warm" "_x._tcp.local." 4500 (-3420000))] ++ (5, Op.start 50) ::
        ([(55, Op.fire false)] ++ (65, Op.ptr "b" "_x._tcp.local." 1125 65) ::
          [(1055, Op.fire false), (5055, .fire false), (14055, .fire false), (24055, .fire false)]))).isSome = true ∧
    IdleOps [(0, Op.ptr "warm" "_x._tcp.local." 4500 (-3420000))] ∧
    Fresh [(55, Op.fire false), (65, Op.ptr "b" "_x._tcp.local." 1125 65), (1055, Op.fire false)] ∧
    (65 : Int) ≤ 65 + 750 * (1125 : Nat) ∧ (5 : Int) + (50 : Nat) + 14000 ≤ 65 + 750 * (1125 : Nat) := by
  unfold IdleOps Fresh
  decide

/-- a running-phase state with a live entry: `Post`, `Uniq` and the hypotheses of `C10_refresh` are satisfiable -/
example : ∃ s : S, ∃ q : Q, Post s ∧ Uniq s.heap ∧ q ∈ s.heap ∧ q.cancelled = false ∧ s.earliest ≤ q.when + 10000 := by
  refine ⟨{ startupSent := 4, started := true, armed := some (.ready, 960000), nextRunMs := 960000, earliest := 34050,
            heap := [firstQuery "b" "_x._tcp.local." 1200 60000] }, firstQuery "b" "_x._tcp.local." 1200 60000, ?_, ?_, ?_, rfl, ?_⟩
  · refine ⟨by decide, rfl, rfl, by decide, by simp [Sorted], ?_⟩
    intro q hq _
    simp only [List.mem_singleton] at hq
    subst hq
    rw [firstQuery_when]; dsimp only; omega
  · intro a
    show ([firstQuery "b" "_x._tcp.local." 1200 60000].filter (isEntry a)).length ≤ 1
    rw [List.filter_cons]; split <;> simp
  · simp
  · rw [firstQuery_when]; dsimp only; omega

example : Active [(5, Op.ptr "a" "t" 1125 5), (7, Op.fire false)] ∧ Untouched "b" [(5, Op.ptr "a" "t" 1125 5), (7, Op.cancel "c")] := by
  constructor <;> intro e he <;> simp at he <;> rcases he with rfl | rfl <;> rfl

/-! ## The two containers as the code has them (`Zc.Sched2`): dict/heap invariant, and C10 restated on that model

`Zc.Sched2` keeps `_query_heap` (objects with identity and `cancelled` flag, cancelled ones left in place) and
`_next_scheduled_for_alias` (alias ↦ object) as separate state and transcribes every statement that touches them, the
`KeyError` of `del dict[alias]` included.  `exec2` is what the correspondence harness runs against the real scheduler (dict and
heap compared after every block).  `Sched2.exec2_refines` shows that forgetting identities and the dict (`Sched2.abs`) turns every
history of `exec2` into the same history of `exec` with the same sends — so every theorem above holds of the two-container
model; the main ones are restated below. -/

open Zc.Sched2 in
/-- **Dict/heap invariant, over every block history** (pointer updates, withdrawals, rescue scheduling, the pop loop of the pass,
stop): (a) every dict value is a heap member that is not cancelled and carries the key as its alias; (b) every non-cancelled heap
member is the dict value of its alias; (c) at most one live entry per alias. -/
theorem C10_dict_heap_invariant (c : Cfg) (clk : Int) (evs : List (Int × Op)) (s' : S2) (outs : List Send)
    (hex : exec2 c {} clk evs = .ok (s', outs)) :
    (∀ al i, dget al s'.dict = some i → ∃ o ∈ s'.heap, o.id = i ∧ o.q.cancelled = false ∧ o.q.alias = al) ∧
    (∀ o ∈ s'.heap, o.q.cancelled = false → dget o.q.alias s'.dict = some o.id) ∧
    (∀ x ∈ s'.heap, ∀ y ∈ s'.heap, x.q.cancelled = false → y.q.cancelled = false → x.q.alias = y.q.alias → x = y) := by
  have h := (exec2_sound c inv2_init hex).2
  exact ⟨h.a, h.b, fun x hx y hy lx ly ha => HD.one_per_alias h hx hy lx ly ha⟩

open Zc.Sched2 in
/-- the `KeyError` at `del self._next_scheduled_for_alias[query.alias]` (which would kill the scheduler: the pass would not
re-arm) cannot happen, and a dict value is never missing from the heap -/
theorem C10_no_keyerror (c : Cfg) (clk : Int) (evs : List (Int × Op)) :
    exec2 c {} clk evs ≠ .error .keyError ∧ exec2 c {} clk evs ≠ .error .dangling :=
  exec2_no_keyError c inv2_init clk evs

open Zc.Sched2 in
/-- **Refinement.**  Every history of the two-container model is the same history of the one-list model (same sends, the final
state is the abstraction), and conversely a history the one-list model accepts is accepted by the two-container model. -/
theorem C10_refinement (c : Cfg) (clk : Int) (evs : List (Int × Op)) :
    (∀ s' outs, exec2 c {} clk evs = .ok (s', outs) → exec c {} clk evs = some (Sched2.abs s', outs)) ∧
    (∀ s outs, exec c {} clk evs = some (s, outs) → ∃ s', exec2 c {} clk evs = .ok (s', outs) ∧ Sched2.abs s' = s) := by
  refine ⟨fun s' outs hex => (exec2_sound c inv2_init hex).1, ?_⟩
  intro s outs hex
  obtain ⟨s2', h1, h2, _⟩ := (exec2_refines c evs {} clk inv2_init).2 s outs hex
  exact ⟨s2', h1, h2⟩

open Zc.Sched2 in
/-- `C10_startup` on the two-container model -/
theorem C10_startup2 (types : List String) (minDelay : Nat) (qtype : Option Bool) (tS : Int) (pre0 : List (Int × Op))
    (t0 : Int) (d : Nat) (evs : List (Int × Op)) (s' : S2) (outs : List Send) (hidle : IdleOps pre0) (hact : Active evs)
    (hex : exec2 (browserCfg types minDelay qtype) {} tS (pre0 ++ (t0, .start d) :: evs) = .ok (s', outs)) :
    20 ≤ d ∧ d ≤ 120 ∧
    ( (s'.startupSent < 4 ∧ outs = startupSends (browserCfg types minDelay qtype) (t0 + d) 0 s'.startupSent
        ∧ ∀ e ∈ evs, e.1 ≤ t0 + d + startupOffset s'.startupSent)
    ∨ (Post (Sched2.abs s') ∧ ∃ post, outs = startupSends (browserCfg types minDelay qtype) (t0 + d) 0 4 ++ post
        ∧ (∀ o ∈ post, t0 + d + 14000 + minDelay ≤ o.t) ∧ Spaced minDelay (post.map (·.t))) ) :=
  C10_startup types minDelay qtype tS pre0 t0 d evs (Sched2.abs s') outs hidle hact (exec2_sound _ inv2_init hex).1

open Zc.Sched2 in
/-- `C10_rate` on the two-container model -/
theorem C10_rate2 (types : List String) (minDelay : Nat) (qtype : Option Bool) (tS : Int) (pre0 : List (Int × Op))
    (t0 : Int) (d : Nat) (evs : List (Int × Op)) (s' : S2) (outs : List Send) (hidle : IdleOps pre0) (hact : Active evs)
    (hex : exec2 (browserCfg types minDelay qtype) {} tS (pre0 ++ (t0, .start d) :: evs) = .ok (s', outs)) :
    Spaced minDelay ((outs.drop 3).map (·.t)) :=
  C10_rate types minDelay qtype tS pre0 t0 d evs (Sched2.abs s') outs hidle hact (exec2_sound _ inv2_init hex).1

open Zc.Sched2 in
/-- `C10_alive` on the two-container model: after every history of an active browser a wake-up is armed for a time not before the
last block — in particular no pass died on a `KeyError` -/
theorem C10_alive2 (types : List String) (minDelay : Nat) (qtype : Option Bool) (tS : Int) (pre0 : List (Int × Op))
    (t0 : Int) (d : Nat) (evs : List (Int × Op)) (s' : S2) (outs : List Send) (hidle : IdleOps pre0) (hact : Active evs)
    (hfresh : Fresh evs)
    (hex : exec2 (browserCfg types minDelay qtype) {} tS (pre0 ++ (t0, .start d) :: evs) = .ok (s', outs)) :
    ∃ k due, s'.armed = some (k, due) ∧ lastTime t0 evs ≤ due :=
  C10_alive types minDelay qtype tS pre0 t0 d evs (Sched2.abs s') outs hidle hact hfresh (exec2_sound _ inv2_init hex).1

open Zc.Sched2 in
/-- `C10_refresh_chain` on the two-container model: the whole 75 % / +10 % chain of an untouched record, from the creation of the
browser, for a record learned at any time after `start` -/
theorem C10_refresh_chain2 (types : List String) (minDelay : Nat) (qtype : Option Bool) (tS : Int) (pre0 : List (Int × Op))
    (t0 : Int) (d : Nat) (pre : List (Int × Op)) (t : Int) (a n : String) (ttl : Nat) (cr : Int) (evs : List (Int × Op))
    (s' : S2) (outs : List Send) (links : Nat)
    (hidle : IdleOps pre0) (hnew0 : Untouched a pre0) (hpre : Active pre) (hnew : Untouched a pre)
    (hact : Active evs) (hun : Untouched a evs)
    (hbefore : t ≤ cr + 750 * ttl) (hlate : t0 + d + 14000 ≤ cr + 750 * ttl)
    (hex : exec2 (browserCfg types minDelay qtype) {} tS
      (pre0 ++ (t0, .start d) :: (pre ++ (t, .ptr a n ttl cr) :: evs)) = .ok (s', outs)) :
    Chain (browserCfg types minDelay qtype) n ttl (cr + 1000 * ttl) (lastTime t evs) outs links (cr + 750 * ttl) :=
  C10_refresh_chain types minDelay qtype tS pre0 t0 d pre t a n ttl cr evs (Sched2.abs s') outs links hidle hnew0 hpre hnew hact hun
    hbefore hlate (exec2_sound _ inv2_init hex).1

open Zc.Sched2 in
/-- `C10_refreshed_chain` on the two-container model (the chain of a refreshed record, true bound `[w − minDelay, w + 2·minDelay]`) -/
theorem C10_refreshed_chain2 (types : List String) (minDelay : Nat) (qtype : Option Bool) (tS : Int) (pre0 : List (Int × Op))
    (t0 : Int) (d : Nat) (pre : List (Int × Op)) (t : Int) (a n : String) (ttl : Nat) (cr : Int) (evs : List (Int × Op))
    (s' : S2) (outs : List Send) (links : Nat)
    (hidle : IdleOps pre0) (hn0 : SameType a n pre0) (hpre : Active pre) (hn : SameType a n pre)
    (hact : Active evs) (hun : Untouched a evs)
    (hbefore : t + minDelay ≤ cr + 750 * ttl) (hlate : t0 + d + 14000 + minDelay ≤ cr + 750 * ttl)
    (hex : exec2 (browserCfg types minDelay qtype) {} tS
      (pre0 ++ (t0, .start d) :: (pre ++ (t, .ptr a n ttl cr) :: evs)) = .ok (s', outs)) :
    ∃ w', cr + 750 * ttl - minDelay ≤ w' ∧ w' ≤ cr + 750 * ttl + minDelay ∧
      Chain (browserCfg types minDelay qtype) n ttl (cr + 1000 * ttl) (lastTime t evs) outs links w' := by
  obtain ⟨w', h1, h2, _, h3⟩ := C10_refreshed_chain types minDelay qtype tS pre0 t0 d pre t a n ttl cr evs (Sched2.abs s') outs links
    hidle hn0 hpre hn hact hun hbefore hlate (exec2_sound _ inv2_init hex).1
  exact ⟨w', h1, h2, h3⟩

open Zc.Sched2 in
/-- `C10_removed_after_attempt` on the two-container model: an instance reported Removed by expiry has had a refresh query of its
own schedule before the expiry -/
theorem C10_removed_after_attempt2 (types : List String) (minDelay : Nat) (qtype : Option Bool) (tS : Int) (pre0 : List (Int × Op))
    (t0 : Int) (d : Nat) (pre : List (Int × Op)) (t : Int) (a n : String) (ttl : Nat) (cr : Int) (evs : List (Int × Op)) (te : Int)
    (s' : S2) (outs : List Send)
    (hidle : IdleOps pre0) (hn0 : SameType a n pre0) (hpre : Active pre) (hn : SameType a n pre)
    (hact : Active evs) (hun : Untouched a evs)
    (hbefore : t + minDelay ≤ cr + 750 * ttl) (hlate : t0 + d + 14000 + minDelay ≤ cr + 750 * ttl)
    (hexp : Gen.Dns.is_expired cr ttl te = true) (hroom : 2 * minDelay < 250 * ttl)
    (hex : exec2 (browserCfg types minDelay qtype) {} tS
      (pre0 ++ (t0, .start d) :: (pre ++ (t, .ptr a n ttl cr) :: (evs ++ [(te, .cancel a)]))) = .ok (s', outs)) :
    ∃ o ∈ outs, cr + 750 * ttl - minDelay ≤ o.t ∧ o.t ≤ cr + 750 * ttl + 2 * minDelay ∧ o.t < cr + 1000 * ttl ∧ n ∈ o.types :=
  C10_removed_after_attempt types minDelay qtype tS pre0 t0 d pre t a n ttl cr evs te (Sched2.abs s') outs
    hidle hn0 hpre hn hact hun hbefore hlate hexp hroom (exec2_sound _ inv2_init hex).1

open Zc.Sched2 in
/-- the D7 history runs on the two-container model with the same sends; afterwards the dict holds exactly the two live objects -/
example : (match exec2 (browserCfg ["_x._tcp.local."] 10000 none) {} 0
    [(0, .start 50), (50, .fire false), (1050, .fire false), (5050, .fire false), (14050, .fire false),
     (20000, .ptr "a" "_x._tcp.local." 4500 20000), (24050, .fire false),
     (60000, .ptr "b" "_x._tcp.local." 1200 60000), (960000, .fire false)] with
    | .ok r => (r.2.map (·.t), r.1.dict.length, r.1.heap.length)
    | .error _ => ([], 0, 0)) = ([50, 1050, 5050, 14050, 960000], 2, 2) := by decide


/-! ## Tie: the source of `QueryScheduler` / `_ScheduledPTRQuery`, translated statement by statement on every run

`Zc.GenFn.Sched` is regenerated from the method *bodies* of `_services/browser.py` (`tools/gen_fn.py`): `_ScheduledPTRQuery` objects
live in a store and the heap and the per-alias dict hold their ids (the representation of `Sched2`), `heapq` is the ascending-list
abstraction, timers and `async_send_ready_queries` are returned effects.  `GenFacts/FnSched.lean` proves the model's steps equal to
the translated bodies for: the five comparison methods, `start`, `stop`, `_arm_ready_types`, `_rearm_if_earlier`,
`_process_startup_queries`, constructor + `_schedule_ptr_query` (`schedule2`), `cancel_ptr_refresh` (`cancel2`),
`reschedule_ptr_first_refresh` (`reschedule2`), `schedule_rescue_query` (`rescueOf` + `schedule2`) and `_process_ready_types`
(`fireReady2`: the `while` loop = `popReady2`, the rescue loop = the fold of `schedule2`, the same wake-up armed) — every block of
`step2`.  **Whole runs** (`GenFacts/FnSchedRun.lean`): `execG` drives the *generated* `QueryScheduler` through the blocks of a trace, one
translated method per block (which callback a `fire` runs is decided by the timer the effects of the earlier calls left armed);
`exec_source`: along every run the model accepts (`exec2 … = .ok`) the generated scheduler never raises, keeps representing the model's
state (`RunInv`: `Rel`, `StoreOk`, the model's dict/heap invariant, "a timer handle implies a loop", "armed implies started") and makes,
send for send, the model's `async_send_ready_queries` calls (`SendsEq`: same instant, `first` flag, question type, the same *set* of
types).  Hence the `_source` twins below (`C10_run_is_source`, `C10_startup_rate_alive2_source`, `C10_refresh_chain2_source` — the latter covers `C10_refresh_chain2`
and `C10_refreshed_chain2`).  Hand-written on that path: which block happens when (the trace, the
event-loop axioms `enabledAt2`), and the pointer records handed to the methods (built from the block's alias, name, TTL, creation time;
aliases lower-case already).  **A difference the tie makes explicit**: the code hands `async_send_ready_queries` the popped names as a `set`; the model's
`Send.types` lists them with repetitions (`C10_ready_source` relates the two by `PySet.ofList`). -/
section Tie
open Zc.Py Zc.Sched2 Zc.GenFn.Sched Zc.GenFacts.FnSched

/-- the heap order of the translated `_ScheduledPTRQuery.__lt__` is `when_millis` alone (what `insert2` assumes) -/
theorem C10_heap_order_source (a b : ScheduledPTRQuery) :
    a.lt b = decide (a.when_millis < b.when_millis) ∧ a.le b = decide (a.when_millis ≤ b.when_millis)
    ∧ a.eq b = decide (a.when_millis = b.when_millis) ∧ a.ge b = decide (a.when_millis ≥ b.when_millis)
    ∧ a.gt b = decide (a.when_millis > b.when_millis) :=
  ⟨lt_eq a b, le_eq a b, eq_eq a b, ge_eq a b, gt_eq a b⟩

/-- **Start-up for the translated code**: the translated `start` arms the start-up callback `d` ms ahead (`d` the `randint` draw over
the configured interval), and every translated `_process_startup_queries` does what `fireStartup2` does: same counter, same
`async_send_ready_queries` call, same timer armed next (1 s, 4 s, 9 s, then the refresh timer one `delay` ahead). -/
theorem C10_startup_source {c : Cfg} {s : QueryScheduler} {m : S2} (h : Rel c s m) (hl : s.loop.isSome) (hst : s.next_run.isSome)
    (done : Bool) (now : Int) :
    ∃ s' eff, s.process_startup_queries done now = .ok (s', eff)
      ∧ armedAfter now none eff = (fireStartup2 c m now done).1.armed
      ∧ sendsOf c eff = (fireStartup2 c m now done).2 := by
  obtain ⟨s', eff, h1, _, _, h2, h3⟩ := process_startup_queries_eq h hl hst done now
  exact ⟨s', eff, h1, h2, h3⟩

/-- **Scheduling a query in the translated code** (constructor call + `_schedule_ptr_query`) is the model's `schedule2`: the heap
with the new object inserted in `when` order, the per-alias dict overwritten, and the wake-up re-armed (`cancel` + `call_at`) exactly
when the model re-arms, for the same instant. -/
theorem C10_schedule_source {c : Cfg} {s : QueryScheduler} {m : S2} (h : Rel c s m) (hok : StoreOk s) (hl : s.loop.isSome)
    (o : ScheduledPTRQuery) (now : Int) :
    ∃ s' eff, QueryScheduler.schedule_ptr_query { s with store := (PyStore.alloc s.store o).2 } (PyStore.alloc s.store o).1 = .ok (s', eff)
      ∧ Rel c s' (schedule2 m (toQ o)) ∧ StoreOk s'
      ∧ armedAfter now m.armed eff = (schedule2 m (toQ o)).armed :=  by
  obtain ⟨s', eff, h1, h2, h3, _, h4, _⟩ := schedule_new_eq h hok (fun _ => hl) o now
  exact ⟨s', eff, h1, h2, h3, h4⟩

/-- **Cancelling and re-scheduling in the translated code** are the model's `cancel2` / `reschedule2` (`a` = the pointer's lower-cased
alias; `hdh`: the object the dict names is in the heap — in Python the dict holds the object itself). -/
theorem C10_cancel_reschedule_source {c : Cfg} {s : QueryScheduler} {m : S2} (lower : String → String) (h : Rel c s m) (hok : StoreOk s)
    (hl : s.loop.isSome) (p : Rec) (a : String) (ha : Rec.attrAliasKey lower p = .ok a) (now : Int)
    (hdh : ∀ i, PyDict.get? strEq s.next_scheduled_for_alias a = some i → i ∈ s.query_heap) :
    (∃ s', QueryScheduler.cancel_ptr_refresh lower s p = .ok s' ∧ Rel c s' (cancel2 m a) ∧ StoreOk s')
    ∧ (∃ s' eff m', QueryScheduler.reschedule_ptr_first_refresh lower s p = .ok (s', eff)
        ∧ reschedule2 c m a p.name p.ttl p.created = .ok m' ∧ Rel c s' m' ∧ StoreOk s'
        ∧ armedAfter now m.armed eff = m'.armed) := by
  obtain ⟨s1, h1, h2, h3, _⟩ := cancel_ptr_refresh_eq lower h hok p a ha
  obtain ⟨s2, eff, m', g1, g2, g3, g4, _, g5, _⟩ := reschedule_ptr_first_refresh_eq lower h hok (fun _ => hl) p a ha now hdh
  exact ⟨⟨s1, h1, h2, h3⟩, ⟨s2, eff, m', g1, g2, g3, g4, g5⟩⟩

/-- **The rescue query of the translated code** (10 % of the TTL after the refresh, dropped when that is at or past the expiry) is
the model's `rescueOf` + `schedule2`. -/
theorem C10_rescue_source {c : Cfg} {s : QueryScheduler} {m : S2} (h : Rel c s m) (hok : StoreOk s) (hl : s.loop.isSome)
    (i : Nat) (o : ScheduledPTRQuery) (ho : PyStore.get? s.store i = some o) (hc : o.cancelled = false) (now clk : Int) :
    ∃ s' eff, s.schedule_rescue_query i now 100 = .ok (s', eff)
      ∧ Rel c s' (rescueStep now m (toQ o)) ∧ StoreOk s'
      ∧ armedAfter clk m.armed eff = (rescueStep now m (toQ o)).armed := by
  obtain ⟨s', eff, h1, h2, h3, _, h4, _⟩ := schedule_rescue_query_eq h hok hl i o ho hc now clk
  exact ⟨s', eff, h1, h2, h3, h4⟩

/-- **The refresh pass of the translated code** (`_process_ready_types`, `zc.done` unset) is the model's `fireReady2` whenever the
model's pop loop succeeds: same heap and dict afterwards, same rescue queries, same wake-up armed (`call_at`), and one
`async_send_ready_queries(False, now, types)` whose `types` is the model's list of popped names made a set. -/
theorem C10_ready_source {c : Cfg} {s : QueryScheduler} {m : S2} (h : Rel c s m) (hok : StoreOk s) (hl : s.loop.isSome)
    (now clk : Int) (r : List Obj × List Obj × Sched2.Dict) (hpop : popReady2 now m.heap m.dict = .ok r) :
    ∃ s' eff m' outs, s.process_ready_types false now = .ok (s', eff)
      ∧ fireReady2 c m now false = .ok (m', outs)
      ∧ Rel c s' m' ∧ StoreOk s'
      ∧ armedAfter clk none eff = m'.armed
      ∧ sendsOf c eff = outs.map (fun sd => { sd with types := PySet.ofList strEq sd.types }) := by
  obtain ⟨s', eff, m', outs, h1, h2, h3, h4, _, h5, h6⟩ := process_ready_types_eq h hok hl now clk r hpop
  exact ⟨s', eff, m', outs, h1, h2, h3, h4, h5, h6⟩

open Zc.GenFacts.FnSchedRun in
/-- the freshly constructed generated scheduler represents the model's initial state -/
theorem C10_init_runInv (types : List String) (minDelay : Nat) (qtype : Option Bool) (addr : Option String) (port : Int) (multicast : Bool) :
    RunInv (C10.browserCfg types minDelay qtype)
      (QueryScheduler.init () types addr port multicast (minDelay : Int)
        (((C10.browserCfg types minDelay qtype).lo : Int), ((C10.browserCfg types minDelay qtype).hi : Int)) qtype 0) {} :=
  ⟨⟨rfl, rfl, fun _ => rfl, rfl, rfl, rfl, rfl, rfl, rfl, rfl, rfl⟩,
   ⟨PyStore.fresh_empty, (fun _ h => by cases h), (fun _ h => by cases h), PyDict.WF_nil⟩,
   inv2_init, (fun h => by cases h), (fun h => by cases h)⟩

open Zc.GenFacts.FnSchedRun in
/-- **Every accepted run, in the translated code.**  For the scheduler a browser builds (`QueryScheduler(zc, types, addr, port, multicast,
delay, _FIRST_QUERY_DELAY_RANDOM_INTERVAL, question_type)`, clock resolution 0) and any trace the model accepts, the translated methods
— called block by block — never raise, and the `async_send_ready_queries` calls they make are, send for send, the model's `outs` -/
theorem C10_run_is_source (lower : String → String) (types : List String) (minDelay : Nat) (qtype : Option Bool) (addr : Option String)
    (port : Int) (multicast : Bool) (tS : Int) (evs : List (Int × Op)) (hal : ∀ e ∈ evs, aliasOk lower e.2)
    (s' : S2) (outs : List Send) (hex : exec2 (C10.browserCfg types minDelay qtype) {} tS evs = .ok (s', outs)) :
    ∃ sG outsG, execG lower (C10.browserCfg types minDelay qtype)
        (QueryScheduler.init () types addr port multicast (minDelay : Int)
          (((C10.browserCfg types minDelay qtype).lo : Int), ((C10.browserCfg types minDelay qtype).hi : Int)) qtype 0) none evs = .ok (sG, outsG)
      ∧ RunInv (C10.browserCfg types minDelay qtype) sG s' ∧ SendsEq outsG outs :=
  exec_source lower evs tS (C10_init_runInv types minDelay qtype addr port multicast) hal hex

open Zc.GenFacts.FnSchedRun C10 in
/-- `C10_startup2`, `C10_rate2`, `C10_alive2` for the sends of the translated code -/
theorem C10_startup_rate_alive2_source (lower : String → String) (types : List String) (minDelay : Nat) (qtype : Option Bool)
    (addr : Option String) (port : Int) (multicast : Bool) (tS : Int) (pre0 : List (Int × Op))
    (t0 : Int) (d : Nat) (evs : List (Int × Op)) (s' : S2) (outs : List Send) (hidle : IdleOps pre0) (hact : Active evs)
    (hal : ∀ e ∈ pre0 ++ (t0, .start d) :: evs, aliasOk lower e.2)
    (hex : exec2 (browserCfg types minDelay qtype) {} tS (pre0 ++ (t0, .start d) :: evs) = .ok (s', outs)) :
    ∃ sG outsG, execG lower (browserCfg types minDelay qtype)
        (QueryScheduler.init () types addr port multicast (minDelay : Int)
          (((browserCfg types minDelay qtype).lo : Int), ((browserCfg types minDelay qtype).hi : Int)) qtype 0) none
        (pre0 ++ (t0, .start d) :: evs) = .ok (sG, outsG)
      ∧ SendsEq outsG outs
      ∧ (20 ≤ d ∧ d ≤ 120 ∧
          ( (s'.startupSent < 4 ∧ outs = startupSends (browserCfg types minDelay qtype) (t0 + d) 0 s'.startupSent
              ∧ ∀ e ∈ evs, e.1 ≤ t0 + d + startupOffset s'.startupSent)
          ∨ (Post (Sched2.abs s') ∧ ∃ post, outs = startupSends (browserCfg types minDelay qtype) (t0 + d) 0 4 ++ post
              ∧ (∀ o ∈ post, t0 + d + 14000 + minDelay ≤ o.t) ∧ Spaced minDelay (post.map (·.t))) ))
      ∧ Spaced minDelay ((outs.drop 3).map (·.t))
      ∧ (Fresh evs → ∃ k due, s'.armed = some (k, due) ∧ lastTime t0 evs ≤ due ∧ sG.next_run.isSome) := by
  obtain ⟨sG, outsG, h1, h2, h3⟩ := C10_run_is_source lower types minDelay qtype addr port multicast tS _ hal s' outs hex
  refine ⟨sG, outsG, h1, h3, C10_startup2 types minDelay qtype tS pre0 t0 d evs s' outs hidle hact hex,
    C10_rate2 types minDelay qtype tS pre0 t0 d evs s' outs hidle hact hex, fun hf => ?_⟩
  obtain ⟨k, due, ha, hd⟩ := C10_alive2 types minDelay qtype tS pre0 t0 d evs s' outs hidle hact hf hex
  refine ⟨k, due, ha, hd, ?_⟩
  rw [← h2.rel.started]
  exact h2.armedStarted (by rw [ha]; rfl)

open Zc.GenFacts.FnSchedRun C10 in
/-- `C10_refresh_chain2` and `C10_refreshed_chain2` for the sends of the translated code: the 75 % / +10 % chain of a record is made of
`async_send_ready_queries` calls of the translated `_process_ready_types` -/
theorem C10_refresh_chain2_source (lower : String → String) (types : List String) (minDelay : Nat) (qtype : Option Bool)
    (addr : Option String) (port : Int) (multicast : Bool) (tS : Int) (pre0 : List (Int × Op))
    (t0 : Int) (d : Nat) (pre : List (Int × Op)) (t : Int) (a n : String) (ttl : Nat) (cr : Int) (evs : List (Int × Op))
    (s' : S2) (outs : List Send) (links : Nat)
    (hal : ∀ e ∈ pre0 ++ (t0, .start d) :: (pre ++ (t, .ptr a n ttl cr) :: evs), aliasOk lower e.2)
    (hex : exec2 (browserCfg types minDelay qtype) {} tS
      (pre0 ++ (t0, .start d) :: (pre ++ (t, .ptr a n ttl cr) :: evs)) = .ok (s', outs)) :
    ∃ sG outsG, execG lower (browserCfg types minDelay qtype)
        (QueryScheduler.init () types addr port multicast (minDelay : Int)
          (((browserCfg types minDelay qtype).lo : Int), ((browserCfg types minDelay qtype).hi : Int)) qtype 0) none
        (pre0 ++ (t0, .start d) :: (pre ++ (t, .ptr a n ttl cr) :: evs)) = .ok (sG, outsG)
      ∧ SendsEq outsG outs
      ∧ (IdleOps pre0 → Untouched a pre0 → Active pre → Untouched a pre → Active evs → Untouched a evs →
          t ≤ cr + 750 * ttl → t0 + d + 14000 ≤ cr + 750 * ttl →
          Chain (browserCfg types minDelay qtype) n ttl (cr + 1000 * ttl) (lastTime t evs) outs links (cr + 750 * ttl))
      ∧ (IdleOps pre0 → SameType a n pre0 → Active pre → SameType a n pre → Active evs → Untouched a evs →
          t + minDelay ≤ cr + 750 * ttl → t0 + d + 14000 + minDelay ≤ cr + 750 * ttl →
          ∃ w', cr + 750 * ttl - minDelay ≤ w' ∧ w' ≤ cr + 750 * ttl + minDelay ∧
            Chain (browserCfg types minDelay qtype) n ttl (cr + 1000 * ttl) (lastTime t evs) outs links w') := by
  obtain ⟨sG, outsG, h1, _, h3⟩ := C10_run_is_source lower types minDelay qtype addr port multicast tS _ hal s' outs hex
  exact ⟨sG, outsG, h1, h3,
    fun hidle hnew0 hpre hnew hact hun hbefore hlate =>
      C10_refresh_chain2 types minDelay qtype tS pre0 t0 d pre t a n ttl cr evs s' outs links hidle hnew0 hpre hnew hact hun hbefore hlate hex,
    fun hidle hn0 hpre hn hact hun hbefore hlate =>
      C10_refreshed_chain2 types minDelay qtype tS pre0 t0 d pre t a n ttl cr evs s' outs links hidle hn0 hpre hn hact hun hbefore hlate hex⟩

end Tie

end Zc
