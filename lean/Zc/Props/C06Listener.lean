import Zc.Props.C06
import Zc.Props.C05Listener
/-! # C06 behind the listener — "arrival time" is this datagram's arrival time

C06's sentence starts "for every response datagram … creation time equal to the arrival time".  Which instant that is, and whether
the datagram is ingested at all, is decided in `AsyncListener._process_datagram_at_time`, in front of the record manager
(`Zc/Model/CacheListener.lean`).  Reading (named; the Python twin is `harness/cachecommon.py:WireRef`): *every response datagram*
= every datagram that passes C16's duplicate guard (`C05_wire_suppressed_iff`: dropped iff byte-identical to the last processed
datagram of the socket and less than 1000 ms after it); *arrival time* = the one clock reading of `datagram_received`, handed
to a fresh `DNSIncoming` and from there to `async_updates_from_response` as `msg.now`.

`C06_wire_step`: after any history on the socket, a datagram that passes the guard is ingested by exactly the `ingest` of
`C06_post_state` / `C06_calls`, with `now` = its own arrival time, and becomes the remembered datagram; a dropped one calls nobody
and changes nothing.  (Seeded defect C06-w4-seed1 re-used the previously decoded message for an identical payload: `msg.now`, the
records' `created` and the `now` the listeners are told stayed at the *first* arrival.) -/
namespace Zc

section
variable (lower : String → String)

/-- **C06 behind the listener.** -/
theorem C06_wire_step (evs : List WireEvent) (payload : Nat) (now : Ms) (recs : List Rec) :
    ((wireRun lower evs).suppresses payload now = true →
        wireStep lower (wireRun lower evs) payload now recs = .ok (wireRun lower evs, none))
    ∧ ((wireRun lower evs).suppresses payload now = false →
        ∃ out, ingest lower (Cache.ops lower) (wireRun lower evs).cache now recs = .ok out
          ∧ wireStep lower (wireRun lower evs) payload now recs
              = .ok ({ cache := out.cache, data := some payload, lastTime := now }, some out)
          ∧ ∀ q, PostState lower now recs q ((wireRun lower evs).cache.getUnique lower q) (out.cache.getUnique lower q)) := by
  constructor
  · intro h
    exact (C05_wire_suppressed_changes_nothing lower _ payload now recs h).1
  · intro h
    obtain ⟨out, ho, hq⟩ := C06_post_state lower (wireProcessed lower {} evs) now recs
    rw [← C05_wire_cache] at ho hq
    refine ⟨out, ho, ?_, hq⟩
    simp only [wireStep, h, Bool.false_eq_true, if_false, ho, bind, Except.bind, pure, Except.pure]

/-- what the listeners of a processed datagram are told is `C06_calls` of the processed history, at this datagram's arrival time -/
theorem C06_wire_calls (evs : List WireEvent) (now : Ms) (recs : List Rec) :
    ∃ out, ingest lower (Cache.ops lower) (wireRun lower evs).cache now recs = .ok out
      ∧ out.call2 = out.call1.map (fun _ => out.cache)
      ∧ ∀ pairs c1, out.call1 = some (pairs, c1) →
          pairs = recs.filterMap (updatePair lower now (wireRun lower evs).cache c1) := by
  obtain ⟨out, ho, h2, _, h4⟩ := C06_calls lower (wireProcessed lower {} evs) now recs
  rw [← C05_wire_cache] at ho h4
  exact ⟨out, ho, h2, fun pairs c1 hc => (h4 pairs c1 hc).1⟩

/-- the same payload again 60 s later: it passes the guard, the record is refreshed to the *second* arrival time, and the pair the
listeners get carries that time (new) and the live cached copy (old) -/
example :
    let a : Rec := ⟨"h.local.", 1, 1, true, 120, 0, .addr [10, 0, 0, 1] none⟩
    let s := wireRun id [.datagram 5000000 3 [a]]
    s.suppresses 3 5060000 = false
    ∧ ((wireStep id s 3 5060000 [a]).toOption.bind (fun o => o.1.cache.getUnique id a)).map (fun e => (e.created, e.ttl)) = some (5060000, 120)
    ∧ ((wireStep id s 3 5060000 [a]).toOption.bind (fun o => o.2.bind (fun out => out.call1.map (fun c => c.1.map (fun p => (p.1.created, p.2.map (·.created)))))))
        = some [(5060000, some 5060000)]
    ∧ s.suppresses 3 5000999 = true ∧ s.suppresses 3 5001000 = false ∧ s.suppresses 4 5000001 = false := by
  decide

end
end Zc
