import Zc.Proofs.QueryGenRun
import Zc.Props.C13
/-! # C13 — run-level statements (companion of `Props/C13.lean`)

`Props/C13.lean` speaks about one call of `askType` / `addQuestion` on a *given* history.  This file adds what the second
review asked for: whole heard queries (several questions, probes, several packets), …

`lower` is an arbitrary `str.lower`; numbers are the English property's. -/
namespace Zc
open Zc.QueryGen Zc.GenFacts.History

variable (lower : String → String)

/-! ## heard as an authoritative responder: whole queries -/

/-- **A heard query, question by question.**  `hearQuery` is `QueryHandler.async_response` as far as the question history goes, for an
assembled query of any number of packets.  For every question key `q`:
1. if *some* packet carries a question of that key which the host can answer and which is QM, the history afterwards holds `q` with
   the arrival time `now` and, as known answers, the records of the **non-probe** packets of the whole query (`heardKnown`) — whatever
   else the message asks, in whatever position (the message's first question is not special);
2. if no packet does (the question is absent, QU only, or one the host has no answer strategy for), the entry of `q` is untouched;
3. `heardKnown` contains only records of packets that are **not probes** (a probe's authority section is not a known-answer list), and
4. for every record of a non-probe packet an identical one (C20). -/
theorem C13_heard_query (h : History) (pkts : List HeardPacket) (now : Int) (q : Question) :
    ((∃ p ∈ pkts, ∃ qc ∈ p.questions, qc.1.beq lower q = true ∧ qc.2 = true ∧ qc.1.unique = false) →
      ∃ e, (hearQuery lower h pkts now).get lower q = some e ∧ e.time = now ∧ e.known = heardKnown lower pkts) ∧
    ((∀ p ∈ pkts, ∀ qc ∈ p.questions, ¬ (qc.1.beq lower q = true ∧ qc.2 = true ∧ qc.1.unique = false)) →
      (hearQuery lower h pkts now).get lower q = h.get lower q) ∧
    (∀ r ∈ heardKnown lower pkts, ∃ p ∈ pkts, p.probe = false ∧ r ∈ p.records) ∧
    (∀ p ∈ pkts, p.probe = false → ∀ r ∈ p.records, ∃ y ∈ heardKnown lower pkts, y.beq lower r = true) := by
  refine ⟨?_, ?_, ?_, ?_⟩
  · rintro ⟨p, hp, qc, hqc, hr⟩
    rw [hearQuery_eq]
    exact hearFold_records lower _ now q _ h ⟨qc, List.mem_flatMap.2 ⟨p, hp, hqc⟩, hr⟩
  · intro hn
    rw [hearQuery_eq]
    apply hearFold_none lower _ now q _ h
    intro qc hqc
    obtain ⟨p, hp, hqc'⟩ := List.mem_flatMap.1 hqc
    exact hn p hp qc hqc'
  · intro r hr
    have := mem_dedupRecs lower hr
    obtain ⟨p, hp, hrp⟩ := List.mem_flatMap.1 this
    have hp' := List.mem_filter.1 hp
    exact ⟨p, hp'.1, by simpa using hp'.2, hrp⟩
  · intro p hp hnp r hr
    exact dedupRecs_complete lower (List.mem_flatMap.2 ⟨p, List.mem_filter.2 ⟨hp, by simp [hnp]⟩, hr⟩)

/-- **… and it suppresses our own question.**  After hearing a query in which *some* packet asks the PTR question of `ty` QM and the
host can answer it, this instance's own QM question at most 999 ms later is suppressed whenever it lists itself every record of the
query's non-probe packets — a probe's authority records play no role, nor does the position of the question in the message. -/
theorem C13_heard_query_suppressed (cache' : List Rec) (h : History) (pkts : List HeardPacket) (now now' : Int) (ty : String)
    (hheard : ∃ p ∈ pkts, ∃ qc ∈ p.questions,
      qc.1.beq lower { name := ty, type := 12, class_ := 1, unique := false } = true ∧ qc.2 = true ∧ qc.1.unique = false)
    (hgap : now' - now ≤ 999)
    (hcov : ∀ p ∈ pkts, p.probe = false → ∀ r ∈ p.records, ∃ k ∈ knownAnswers lower cache' ty 12 1 now', r.beq lower k = true) :
    (askType lower cache' (hearQuery lower h pkts now) now' false ty).1 = none := by
  rw [C13_suppress_iff]
  obtain ⟨e, he, ht, hk⟩ := (C13_heard_query lower h pkts now _).1 hheard
  refine ⟨rfl, e, he, by rw [ht]; exact hgap, ?_⟩
  intro r hr
  rw [hk] at hr
  obtain ⟨p, hp, hnp, hrp⟩ := (C13_heard_query lower h pkts now { name := ty, type := 12, class_ := 1, unique := false }).2.2.1 r hr
  exact hcov p hp hnp r hrp

/-- non-vacuity, the reviewer's two inputs: (a) a query `[PTR _y (cannot answer), PTR _x (can)]` heard at 1000 — 500 ms later our own
`_x` question is suppressed and the `_y` question is not; (b) a probe `[PTR _x; authority New._x]` — recorded with an empty list, so
our own question 500 ms later is suppressed although we do not hold `New._x` -/
example :
    let qx : Question := { name := "_x._tcp.local.", type := 12, class_ := 1, unique := false }
    let qy : Question := { name := "_y._tcp.local.", type := 12, class_ := 1, unique := false }
    let new : Rec := { name := "_x._tcp.local.", type := 12, class_ := 1, unique := false, ttl := 4500, created := 1000, rdata := .ptr "New._x._tcp.local." }
    (askType id [] (hearQuery id [] [{ probe := false, questions := [(qy, false), (qx, true)], records := [] }] 1000) 1500 false "_x._tcp.local.").1.isNone = true ∧
    (askType id [] (hearQuery id [] [{ probe := false, questions := [(qy, false), (qx, true)], records := [] }] 1000) 1500 false "_y._tcp.local.").1.isSome = true ∧
    (askType id [] (hearQuery id [] [{ probe := true, questions := [(qx, true)], records := [new] }] 1000) 1500 false "_x._tcp.local.").1.isNone = true ∧
    (askType id [] (hearQuery id [] [{ probe := false, questions := [(qx, true)], records := [new] }] 1000) 1500 false "_x._tcp.local.").1.isSome = true := by
  decide

end Zc
