import Zc.Proofs.QueryGenRun
import Zc.Props.C13
import Zc.Props.C14
import Zc.Model.SurviveTimers
import Zc.GenFacts.QueryMsg
/-! # C13 — run-level statements (companion of `Props/C13.lean`)

`Props/C13.lean` speaks about one call of `askType` / `addQuestion` on a *given* history.  This file adds what the second
review asked for: whole heard queries (several questions, probes, several packets), …

`lower` is an arbitrary `str.lower`; numbers are the English property's. -/
namespace Zc
open Zc.QueryGen Zc.GenFacts.History

variable (lower : String → String)

/-! ## heard as an authoritative responder: whole queries -/

/-- **A heard query, question by question.**  `hearQuery` is `QueryHandler.async_response` as far as the question history goes, for an
assembled query of any number of packets.  For every question key `q`:
1. if *some* packet carries a question of that key which the host can answer and which is QM, the history afterwards holds `q` with
   the arrival time `now` and, as known answers, the records of the **non-probe** packets of the whole query (`heardKnown`) — whatever
   else the message asks, in whatever position (the message's first question is not special);
2. if no packet does (the question is absent, QU only, or one the host has no answer strategy for), the entry of `q` is untouched;
3. `heardKnown` contains only records of packets that are **not probes** (a probe's authority section is not a known-answer list), and
4. for every record of a non-probe packet an identical one (C20). -/
theorem C13_heard_query (h : History) (pkts : List HeardPacket) (now : Int) (q : Question) :
    ((∃ p ∈ pkts, ∃ qc ∈ p.questions, qc.1.beq lower q = true ∧ qc.2 = true ∧ qc.1.unique = false) →
      ∃ e, (hearQuery lower h pkts now).get lower q = some e ∧ e.time = now ∧ e.known = heardKnown lower pkts) ∧
    ((∀ p ∈ pkts, ∀ qc ∈ p.questions, ¬ (qc.1.beq lower q = true ∧ qc.2 = true ∧ qc.1.unique = false)) →
      (hearQuery lower h pkts now).get lower q = h.get lower q) ∧
    (∀ r ∈ heardKnown lower pkts, ∃ p ∈ pkts, p.probe = false ∧ r ∈ p.records) ∧
    (∀ p ∈ pkts, p.probe = false → ∀ r ∈ p.records, ∃ y ∈ heardKnown lower pkts, y.beq lower r = true) := by
  refine ⟨?_, ?_, ?_, ?_⟩
  · rintro ⟨p, hp, qc, hqc, hr⟩
    rw [hearQuery_eq]
    exact hearFold_records lower _ now q _ h ⟨qc, List.mem_flatMap.2 ⟨p, hp, hqc⟩, hr⟩
  · intro hn
    rw [hearQuery_eq]
    apply hearFold_none lower _ now q _ h
    intro qc hqc
    obtain ⟨p, hp, hqc'⟩ := List.mem_flatMap.1 hqc
    exact hn p hp qc hqc'
  · intro r hr
    have := mem_dedupRecs lower hr
    obtain ⟨p, hp, hrp⟩ := List.mem_flatMap.1 this
    have hp' := List.mem_filter.1 hp
    exact ⟨p, hp'.1, by simpa using hp'.2, hrp⟩
  · intro p hp hnp r hr
    exact dedupRecs_complete lower (List.mem_flatMap.2 ⟨p, List.mem_filter.2 ⟨hp, by simp [hnp]⟩, hr⟩)

/-- **… and it suppresses our own question.**  After hearing a query in which *some* packet asks the PTR question of `ty` QM and the
host can answer it, this instance's own QM question at most 999 ms later is suppressed whenever it lists itself every record of the
query's non-probe packets — a probe's authority records play no role, nor does the position of the question in the message. -/
theorem C13_heard_query_suppressed (cache' : List Rec) (h : History) (pkts : List HeardPacket) (now now' : Int) (ty : String)
    (hheard : ∃ p ∈ pkts, ∃ qc ∈ p.questions,
      qc.1.beq lower { name := ty, type := 12, class_ := 1, unique := false } = true ∧ qc.2 = true ∧ qc.1.unique = false)
    (hgap : now' - now ≤ 999)
    (hcov : ∀ p ∈ pkts, p.probe = false → ∀ r ∈ p.records, ∃ k ∈ knownAnswers lower cache' ty 12 1 now', r.beq lower k = true) :
    (askType lower cache' (hearQuery lower h pkts now) now' false ty).1 = none := by
  rw [C13_suppress_iff]
  obtain ⟨e, he, ht, hk⟩ := (C13_heard_query lower h pkts now _).1 hheard
  refine ⟨rfl, e, he, by rw [ht]; exact hgap, ?_⟩
  intro r hr
  rw [hk] at hr
  obtain ⟨p, hp, hnp, hrp⟩ := (C13_heard_query lower h pkts now { name := ty, type := 12, class_ := 1, unique := false }).2.2.1 r hr
  exact hcov p hp hnp r hrp

/-- non-vacuity, the reviewer's two inputs: (a) a query `[PTR _y (cannot answer), PTR _x (can)]` heard at 1000 — 500 ms later our own
`_x` question is suppressed and the `_y` question is not; (b) a probe `[PTR _x; authority New._x]` — recorded with an empty list, so
our own question 500 ms later is suppressed although we do not hold `New._x` -/
example :
    let qx : Question := { name := "_x._tcp.local.", type := 12, class_ := 1, unique := false }
    let qy : Question := { name := "_y._tcp.local.", type := 12, class_ := 1, unique := false }
    let new : Rec := { name := "_x._tcp.local.", type := 12, class_ := 1, unique := false, ttl := 4500, created := 1000, rdata := .ptr "New._x._tcp.local." }
    (askType id [] (hearQuery id [] [{ probe := false, questions := [(qy, false), (qx, true)], records := [] }] 1000) 1500 false "_x._tcp.local.").1.isNone = true ∧
    (askType id [] (hearQuery id [] [{ probe := false, questions := [(qy, false), (qx, true)], records := [] }] 1000) 1500 false "_y._tcp.local.").1.isSome = true ∧
    (askType id [] (hearQuery id [] [{ probe := true, questions := [(qx, true)], records := [new] }] 1000) 1500 false "_x._tcp.local.").1.isNone = true ∧
    (askType id [] (hearQuery id [] [{ probe := false, questions := [(qx, true)], records := [new] }] 1000) 1500 false "_x._tcp.local.").1.isSome = true := by
  decide

/-! ## runs of an instance: "asked it, or heard it, within the previous 999 ms"

`Op` (`Proofs/QueryGenRun.lean`) are the operations of one instance that touch its question history — any browser's
`generate_service_query`, any lookup's `_generate_request_query`, `async_response` on an assembled query, the 10 s clean-up tick — with
arbitrary caches, clocks, types and names per operation.  The list is the order of **execution**; the clocks are arbitrary, but
`C13.Chrono` (hypothesis of `C13_suppress_any_sighting_partial` only) additionally demands that execution order is clock order, which a
heard truncated query that the listener deferred violates (see `C13.Chrono`, finding R3-C13-a).  `runOps [] ops` is the history after the run together with the run's
**sightings**: every QM question the instance transmitted and every QM question it heard that it can answer, each with its time and
known-answer list.  The sentence of the property speaks about these sightings, not about the dict. -/

/-- the clean-up ticks of the run lie in the past of `now` (the only thing `C13_run_suppress_iff` needs of the run's clocks) -/
def C13.TicksPast (ops : List Op) (now : Int) : Prop := ∀ t, Op.tick t ∈ ops → t ≤ now

/-- the operations **execute in the order of the times they carry**, all in the past of `now`.
**This is not the property's own quantifier**: it is a restriction on runs, and the library produces runs outside it.  `Op.hear pkts T`
carries the arrival time `T` of the query's last packet; a truncated (TC) query whose train is incomplete is held back by the listener
(`_listener.py` `handle_query_or_defer`) and *executes* at `T + 400..500`.  A run in which a browser or lookup asks between `T` and that
instant has the `hear` op after the ask in execution order although it carries an earlier time — not `Chrono`.  On such runs the code sends
a question the sentence forbids: finding R3-C13-a (`C13_heard_at_arrival_refuted`).  `Chrono` is a hypothesis of
`C13_suppress_any_sighting_partial` only; `C13_run_suppress_iff` holds for every execution order (`TicksPast`). -/
def C13.Chrono (ops : List Op) (now : Int) : Prop := ops.Pairwise (fun a b => a.time ≤ b.time) ∧ ∀ op ∈ ops, op.time ≤ now

theorem C13.Chrono.ticksPast {ops : List Op} {now : Int} (h : C13.Chrono ops now) : C13.TicksPast ops now :=
  fun t ht => h.2 (.tick t) ht

/-- **What the code decides, in terms of the run.**  After any run from the empty history — `ops` in the order in which the operations
**executed**, whatever times they carry, the clean-up ticks in the past of `now` — a browser question asked at `now` is omitted iff it is
QM and the sighting of that question that was **written last** — asked or heard — is stamped at most 999 ms ago with a known-answer list of
which every record is among ours.  A heard query that the listener deferred is an `Op.hear` at the place where it executed, stamped with
its arrival time; before that place it is not a sighting for the code, although the instance has heard it (finding R3-C13-a).
The clean-up ticks play no role; neither does which browser or lookup asked.  (Lookup question: `C13_run_lookup_suppress_iff`.)
`runOps` is a proof-level composition: the driver has no run command — the harness replays a run operation by operation
(`c13svc`, `c13req`, `c13hearm`, `c13expire`, each fed the implementation's history before the step), which is `Op.run` step by step. -/
theorem C13_run_suppress_iff (ops : List Op) (now : Int) (hc : C13.TicksPast ops now) (cache : List Rec) (qu : Bool) (ty : String) :
    (askType lower cache (runOps lower [] ops).1 now qu ty).1 = none ↔
      qu = false ∧ ∃ s, lastSighting lower (runOps lower [] ops).2 { name := ty, type := 12, class_ := 1, unique := qu } = some s ∧
        now - s.time ≤ 999 ∧ Covers lower s (knownAnswers lower cache ty 12 1 now) := by
  have hf := runOps_futEqAt lower now ops [] [] (by simp [History.Keyed]) hc (fun _ _ => rfl)
  rw [askType_eq]
  cases qu with
  | true => simp
  | false =>
    simp only [Bool.not_false, Bool.true_and, true_and]
    rw [hf _ _]
    by_cases hs : (History.seeAll lower [] (runOps lower [] ops).2).suppresses lower { name := ty, type := 12, class_ := 1, unique := false } now
        (knownAnswers lower cache ty 12 1 now) = true
    · rw [if_pos hs]
      simp only [true_iff]
      exact (suppresses_seeAll lower _ _ now _).1 hs
    · rw [if_neg hs]
      constructor
      · intro hh; cases hh
      · intro hex; exact absurd ((suppresses_seeAll lower _ _ now _).2 hex) hs

theorem C13_run_lookup_suppress_iff (ops : List Op) (now : Int) (hc : C13.TicksPast ops now) (cache : List Rec) (qu : Bool)
    (name : String) (type cls : Nat) :
    (addQuestion lower cache (runOps lower [] ops).1 now qu name type cls false).1 = none ↔
      qu = false ∧ ∃ s, lastSighting lower (runOps lower [] ops).2 { name, type, class_ := cls, unique := qu } = some s ∧
        now - s.time ≤ 999 ∧ Covers lower s (knownAnswers lower cache name type cls now) := by
  have hf := runOps_futEqAt lower now ops [] [] (by simp [History.Keyed]) hc (fun _ _ => rfl)
  rw [addQuestion_eq]
  cases qu with
  | true => simp
  | false =>
    simp only [Bool.false_and, Bool.false_eq_true, if_false, true_and]
    rw [hf _ _]
    by_cases hs : (History.seeAll lower [] (runOps lower [] ops).2).suppresses lower { name, type, class_ := cls, unique := false } now
        (knownAnswers lower cache name type cls now) = true
    · rw [if_pos hs]
      simp only [true_iff]
      exact (suppresses_seeAll lower _ _ now _).1 hs
    · rw [if_neg hs]
      constructor
      · intro hh; cases hh
      · intro hex; exact absurd ((suppresses_seeAll lower _ _ now _).2 hex) hs

/-- the sentence's condition: **some** sighting of the question within the previous 999 ms had a known-answer list we fully know -/
def C13.SomeSightingCovers (ss : List Sighting) (q : Question) (now : Int) (known : List Rec) : Prop :=
  ∃ s ∈ ss, s.q.beq lower q = true ∧ now - s.time ≤ 999 ∧ Covers lower s known

/-- **The sentence at full strength** ("a QM question is not sent if this instance asked it, or heard it as an authoritative responder,
within the previous 999 ms with a known-answer list that contained nothing it does not know itself", and is sent otherwise): omitted iff QM
and some sighting of the run covers. -/
def C13.suppress_any_sighting_full : Prop :=
  ∀ (ops : List Op) (now : Int), C13.Chrono ops now → ∀ (cache : List Rec) (ty : String),
    (askType lower cache (runOps lower [] ops).1 now false ty).1 = none ↔
      C13.SomeSightingCovers lower (runOps lower [] ops).2 { name := ty, type := 12, class_ := 1, unique := false } now
        (knownAnswers lower cache ty 12 1 now)

/-- the input class of **finding D13b**: a sighting within the window covers, but a *later* sighting of the same question — the one
the dict kept — does not -/
def C13.LastSightingWorse (ss : List Sighting) (q : Question) (now : Int) (known : List Rec) : Prop :=
  C13.SomeSightingCovers lower ss q now known ∧ ∃ s, lastSighting lower ss q = some s ∧ ¬ Covers lower s known

/-- **Never suppressed without a reason** (unconditional half of the sentence): an omitted question is QM and some sighting of the run,
at most 999 ms old, covers. -/
theorem C13_suppressed_only_if_sighted (ops : List Op) (now : Int) (hc : C13.Chrono ops now) (cache : List Rec) (qu : Bool) (ty : String)
    (h : (askType lower cache (runOps lower [] ops).1 now qu ty).1 = none) :
    qu = false ∧ C13.SomeSightingCovers lower (runOps lower [] ops).2 { name := ty, type := 12, class_ := 1, unique := qu } now
      (knownAnswers lower cache ty 12 1 now) := by
  obtain ⟨hq, s, hs, hw, hcov⟩ := (C13_run_suppress_iff lower ops now hc.ticksPast cache qu ty).1 h
  obtain ⟨hm, hk⟩ := lastSighting_some lower hs
  exact ⟨hq, s, hm, hk, hw, hcov⟩

/-- **Suppression over any sighting (partial: finding D13b).**  Outside the class `LastSightingWorse` the sentence holds at full strength:
the question is omitted iff some sighting of the run within the previous 999 ms covers.  Missing: inside the class — an earlier sighting
covers, a later one does not — `QuestionHistory` has overwritten the earlier sighting (`self._history[question] = (now, known_answers)`
keeps one entry per question) and the question is sent although the sentence says it is not (`C13_suppress_any_sighting_refuted`). -/
theorem C13_suppress_any_sighting_partial (ops : List Op) (now : Int) (hc : C13.Chrono ops now) (cache : List Rec) (ty : String)
    (hnot : ¬ C13.LastSightingWorse lower (runOps lower [] ops).2 { name := ty, type := 12, class_ := 1, unique := false } now
      (knownAnswers lower cache ty 12 1 now)) :
    (askType lower cache (runOps lower [] ops).1 now false ty).1 = none ↔
      C13.SomeSightingCovers lower (runOps lower [] ops).2 { name := ty, type := 12, class_ := 1, unique := false } now
        (knownAnswers lower cache ty 12 1 now) := by
  constructor
  · intro h; exact (C13_suppressed_only_if_sighted lower ops now hc cache false ty h).2
  · intro hsome
    rw [C13_run_suppress_iff lower ops now hc.ticksPast]
    refine ⟨rfl, ?_⟩
    have hsome' := hsome
    obtain ⟨s0, hm0, hk0, hw0, -⟩ := hsome'
    obtain ⟨s, hs⟩ := lastSighting_isSome lower hm0 hk0
    refine ⟨s, hs, ?_, ?_⟩
    · have := lastSighting_latest lower (runOps_chrono lower ops [] hc.1).1 hs s0 hm0 hk0
      omega
    · apply Classical.byContradiction
      intro hn
      exact hnot ⟨hsome, s, hs, hn⟩

/-- the reviewer's sequence: we ask `_x` at 0 knowing `Inst0` (sent: a sighting with a list we know), hear the same question at 100 from
a peer that also lists `Other` (which we do not hold), and want to ask again at 500 with the same cache -/
def exInst0 : Rec := { name := "_x._tcp.local.", type := 12, class_ := 1, unique := false, ttl := 4500, created := 0, rdata := .ptr "Inst0._x._tcp.local." }
def exOther : Rec := { name := "_x._tcp.local.", type := 12, class_ := 1, unique := false, ttl := 4500, created := 100, rdata := .ptr "Other._x._tcp.local." }
def exLastWorse : List Op :=
  [.browse [exInst0] 0 false ["_x._tcp.local."],
   .hear [{ probe := false, questions := [({ name := "_x._tcp.local.", type := 12, class_ := 1, unique := false }, true)], records := [exInst0, exOther] }] 100]

/-- the hypothesis `Chrono` is met by it -/
theorem exLastWorse_chrono : C13.Chrono exLastWorse 500 := by
  refine ⟨?_, ?_⟩
  · simp [exLastWorse, Op.time]
  · intro op hop
    simp only [exLastWorse, List.mem_cons, List.not_mem_nil, or_false] at hop
    rcases hop with rfl | rfl <;> simp [Op.time]

/-- **false today (finding D13b)**: in `exLastWorse` the sighting at 0 is 500 ms old and its list is fully known, yet the question is
sent at 500 — the history only remembers the sighting at 100, whose list contains `Other`. -/
theorem C13_suppress_any_sighting_refuted : ¬ C13.suppress_any_sighting_full id := by
  intro h
  have := (h exLastWorse 500 exLastWorse_chrono [exInst0] "_x._tcp.local.").2
    ⟨{ q := { name := "_x._tcp.local.", type := 12, class_ := 1, unique := false }, time := 0, known := [exInst0] },
      by decide, by decide, by decide, by
        intro r hr
        simp only [List.mem_singleton] at hr
        subst hr
        exact ⟨exInst0, by decide, by decide⟩⟩
  have h2 : (askType id [exInst0] (runOps id [] exLastWorse).1 500 false "_x._tcp.local.").1.isSome = true := by decide
  rw [this] at h2
  cases h2

/-- the witness is in the finding's class, and the class hypothesis of the partial theorem is met by ordinary runs (here: the same run
without the heard query) -/
example : (askType id [exInst0] (runOps id [] exLastWorse).1 500 false "_x._tcp.local.").1.isSome = true ∧
    (askType id [exInst0] (runOps id [] (exLastWorse.take 1)).1 500 false "_x._tcp.local.").1.isNone = true := by decide

/-! ## heard on arrival vs. written when processed (finding R3-C13-a) -/

/-- **The sentence, for a heard query, from the moment it is heard**: whatever the history holds (`h`: the state at our ask), if a query
`pkts` in which some packet asks the PTR question of `ty` QM, answerable by this host, **arrived** at `T` at most 999 ms before our ask at
`now`, and we list ourselves every record of its non-probe packets, our own QM question is not sent. -/
def C13.heard_at_arrival_full : Prop :=
  ∀ (cache : List Rec) (h : History) (pkts : List HeardPacket) (T now : Int) (ty : String),
    (∃ p ∈ pkts, ∃ qc ∈ p.questions, qc.1.beq lower { name := ty, type := 12, class_ := 1, unique := false } = true ∧ qc.2 = true ∧ qc.1.unique = false) →
    T ≤ now → now - T ≤ 999 →
    (∀ p ∈ pkts, p.probe = false → ∀ r ∈ p.records, ∃ k ∈ knownAnswers lower cache ty 12 1 now, r.beq lower k = true) →
    (askType lower cache h now false ty).1 = none

/-- **… holds once the query has been processed (partial: finding R3-C13-a).**  The hypothesis `hproc` — the history at our ask is the
one `async_response` left (`hearQuery h0 pkts T`) — is exactly what fails inside the listener's deferral window: a truncated (TC) query
whose train is incomplete is heard at `T` but processed at `T + 400..500`; an ask in between sees `h0`. -/
theorem C13_heard_at_arrival_partial (cache : List Rec) (h h0 : History) (pkts : List HeardPacket) (T now : Int) (ty : String)
    (hproc : h = hearQuery lower h0 pkts T)
    (hheard : ∃ p ∈ pkts, ∃ qc ∈ p.questions,
      qc.1.beq lower { name := ty, type := 12, class_ := 1, unique := false } = true ∧ qc.2 = true ∧ qc.1.unique = false)
    (hgap : now - T ≤ 999)
    (hcov : ∀ p ∈ pkts, p.probe = false → ∀ r ∈ p.records, ∃ k ∈ knownAnswers lower cache ty 12 1 now, r.beq lower k = true) :
    (askType lower cache h now false ty).1 = none := by
  rw [hproc]
  exact C13_heard_query_suppressed lower cache h0 pkts T now ty hheard hgap hcov

/-- **The stamp of a heard question is its arrival time** (translated leaves on `now = msg.now` and on the argument of
`add_question_at_time` in `async_response` — review r3 m7): whenever the assembled query is processed, the `now` handed to `hearQuery` is
`msgs[-1].now`.  So a deferred truncated query, processed 400–500 ms after it arrived, stops suppressing 999 ms after its **arrival**. -/
theorem C13_heard_stamp (msgNow : Int) : Gen.BrowserQuery.heard_stamp_arg (Gen.BrowserQuery.heard_stamp msgNow) = msgNow :=
  GenFacts.QueryMsg.heard_stamp_eq msgNow

/-- a one-packet query asking the PTR question of `_x._tcp.local.` QM, answerable by this host, with no known answers -/
def exHeardPkt : HeardPacket :=
  { probe := false, questions := [({ name := "_x._tcp.local.", type := 12, class_ := 1, unique := false }, true)], records := [] }

/-- **false today (finding R3-C13-a)**: with the history still empty — the heard TC packet sits in the listener's deferral queue — our
own question 1 ms after hearing a query with an empty known-answer list is sent. -/
theorem C13_heard_at_arrival_refuted : ¬ C13.heard_at_arrival_full id := by
  intro h
  have := h [] [] [exHeardPkt] 1000 1001 "_x._tcp.local."
    ⟨exHeardPkt, List.mem_singleton.2 rfl, ({ name := "_x._tcp.local.", type := 12, class_ := 1, unique := false }, true), List.mem_singleton.2 rfl,
      by decide, rfl, rfl⟩
    (by decide) (by decide)
    (by intro p hp _ r hr; rw [List.mem_singleton.1 hp] at hr; exact absurd hr (by simp [exHeardPkt]))
  have h2 : (askType id [] [] 1001 false "_x._tcp.local.").1.isSome = true := by decide
  rw [this] at h2
  cases h2

/-! ## a duplicate lookup question is not transmitted (the lookup analogue of `C13_repeat_suppressed`) -/

/-- **A lookup question asked QM is not asked again within 999 ms with a covering list.**  After `_add_question_with_known_answers`
emitted the QM question `(name, type, cls)` at `now` (whatever the history held), the same question at `now'` at most 999 ms later, on a
cache whose known answers cover the ones listed at `now`, is omitted — by the history, or because an answer is now held (`skip`).
This is what keeps the early third request of finding D13 (generated 220–320 ms after the second — `C13_lookup_spacing_refuted`) **silent
when it is a duplicate**: every question the second request transmitted is dropped from the third unless its known-answer list shrank;
only new questions (asked for the first time) or shrunken lists go out — D13's class.
Not composed here: the four questions of one request are threaded through one history; they have four different types, hence four
different keys, so the entry of one survives the other three writes (`get_add_ne`) — stated per question only. -/
theorem C13_lookup_repeat_suppressed (cache cache' : List Rec) (h : History) (now now' : Int) (name : String) (type cls : Nat) (skip skip' : Bool)
    (hasked : (addQuestion lower cache h now false name type cls skip).1 ≠ none) (hgap : now' - now ≤ 999)
    (hcov : ∀ r ∈ knownAnswers lower cache name type cls now, ∃ k ∈ knownAnswers lower cache' name type cls now', r.beq lower k = true) :
    (addQuestion lower cache' (addQuestion lower cache h now false name type cls skip).2 now' false name type cls skip').1 = none := by
  have hrec : (addQuestion lower cache h now false name type cls skip).2.get lower { name, type, class_ := cls, unique := false } =
      some { q := { name, type, class_ := cls, unique := false }, time := now, known := knownAnswers lower cache name type cls now } := by
    rw [addQuestion_eq] at hasked ⊢
    split at hasked
    · exact absurd rfl hasked
    · rename_i h1
      rw [if_neg h1]
      simp only [Bool.false_eq_true, if_false] at hasked ⊢
      split at hasked
      · exact absurd rfl hasked
      · rename_i h2
        rw [if_neg h2]
        exact get_add lower h _ now _
  rw [addQuestion_eq]
  split
  · rfl
  · simp only [Bool.false_eq_true, if_false]
    have hs : (addQuestion lower cache h now false name type cls skip).2.suppresses lower { name, type, class_ := cls, unique := false } now'
        (knownAnswers lower cache' name type cls now') = true :=
      (suppresses_iff lower _ _ now' _).2 ⟨_, hrec, hgap, hcov⟩
    rw [if_pos hs]

/-- non-vacuity: the A question asked at 1000 with one known answer; at 1246 (the early third request) with the same cache it is omitted,
with an empty cache (the list shrank) it is asked again -/
example :
    let a : Rec := { name := "h.local.", type := 1, class_ := 1, unique := true, ttl := 4500, created := 0, rdata := .addr [10, 0, 0, 1] none }
    (addQuestion id [a] (addQuestion id [a] [] 1000 false "h.local." 1 1 false).2 1246 false "h.local." 1 1 false).1.isNone = true ∧
    (addQuestion id [] (addQuestion id [a] [] 1000 false "h.local." 1 1 false).2 1246 false "h.local." 1 1 false).1.isSome = true := by
  decide

/-! ## what one `generate_service_query` / `_generate_request_query` call emits -/

/-- **The questions of one browser query.**  `serviceQuestions` is `generate_service_query` up to the bucket grouping: the per-type loop
with its questions collected in the dict keyed by `DNSQuestion`.  (1) Every question emitted is the PTR/IN question of one of the types,
with the computed QU bit, exactly the known answers of that type and each of them on the wire with its remaining TTL; (2) no two emitted
questions are the same question (two spellings of one type in the type set give one question — whichever spelling the set yields
first); (3) every question the loop lets through is in the output; (4) the history afterwards is the history before plus the QM
questions the loop let through, in order. -/
theorem C13_service_query (cache : List Rec) (h : History) (now : Int) (qu : Bool) (tys : List String) :
    (∀ x ∈ (serviceQuestions lower cache now qu tys h).1, ∃ ty ∈ tys,
        x.q = { name := ty, type := 12, class_ := 1, unique := qu } ∧ x.known = knownAnswers lower cache ty 12 1 now ∧
        (now ≠ 0 → x.wire = x.known.map (fun r => (r, ((r.created + 1000 * r.ttl - now) / 1000).toNat)))) ∧
    DistinctKeys lower (serviceQuestions lower cache now qu tys h).1 ∧
    (∀ o ∈ (serviceQuery lower cache now qu tys h).1, ∃ y ∈ (serviceQuestions lower cache now qu tys h).1, y.q.beq lower o.q = true) ∧
    (serviceQuestions lower cache now qu tys h).2 = h.seeAll lower (sightingsOf now (serviceQuery lower cache now qu tys h).1) := by
  refine ⟨?_, foldl_dictPut_distinct lower _ [] (by simp [DistinctKeys]), ?_, serviceQuery_history lower cache now qu tys h⟩
  · intro x hx
    obtain ⟨o1, h1, o2, h2, e1, e2, e3, e4⟩ :=
      foldl_dictPut_fromLoop lower (serviceQuery lower cache now qu tys h).1 _ [] (fun o ho => ho) (by simp) x hx
    obtain ⟨ty1, hm1, h1', ha1⟩ := serviceQuery_mem lower cache now qu tys h o1 h1
    obtain ⟨ty2, hm2, h2', ha2⟩ := serviceQuery_mem lower cache now qu tys h o2 h2
    obtain ⟨q1, -, -⟩ := C13_browser_question lower cache h1' now qu ty1 o1 ha1
    obtain ⟨q2, k2, w2⟩ := C13_browser_question lower cache h2' now qu ty2 o2 ha2
    have hlow : lower ty1 = lower ty2 := by
      rw [q1, q2] at e4
      have := (question_beq_iff lower _ _).1 e4
      simp only [Question.specIdent, Prod.mk.injEq] at this
      exact this.1
    have hk : x.known = knownAnswers lower cache ty1 12 1 now := by
      rw [e2, k2]; exact (knownAnswers_congr lower cache ty1 ty2 12 1 now hlow).symm
    refine ⟨ty1, hm1, by rw [e1, q1], hk, ?_⟩
    intro hn
    rw [e3, w2 hn, e2]
  · intro o ho
    exact foldl_dictPut_complete lower _ [] o (Or.inl ho)

/-- **The questions of one lookup query**: each is the SRV or TXT question of the instance name or the A or AAAA question of
`server or name`, class IN, with the request's QU bit, exactly the known answers of that question, each on the wire with its remaining
TTL; and the history afterwards is the history before plus the QM questions emitted, in order. -/
theorem C13_request_query (cache : List Rec) (h : History) (now : Int) (qu : Bool) (name server : String) :
    (∀ o ∈ (requestQuery lower cache h now qu name server).1,
        ((o.q.name = name ∧ (o.q.type = 33 ∨ o.q.type = 16)) ∨ (o.q.name = server ∧ (o.q.type = 1 ∨ o.q.type = 28))) ∧
        o.q.class_ = 1 ∧ o.q.unique = qu ∧ o.known = knownAnswers lower cache o.q.name o.q.type 1 now ∧
        (now ≠ 0 → o.wire = o.known.map (fun r => (r, ((r.created + 1000 * r.ttl - now) / 1000).toNat)))) ∧
    (requestQuery lower cache h now qu name server).2 = h.seeAll lower (sightingsOf now (requestQuery lower cache h now qu name server).1) := by
  refine ⟨?_, requestQuery_history lower cache h now qu name server⟩
  intro o ho
  unfold requestQuery at ho
  simp only [List.mem_filterMap, List.mem_cons, List.not_mem_nil, or_false, id] at ho
  obtain ⟨r, hr, hro⟩ := ho
  subst hro
  rcases hr with h1 | h1 | h1 | h1
  · obtain ⟨q, k, w⟩ := C13_lookup_question lower cache _ now qu name 33 1 true o h1.symm
    refine ⟨Or.inl ⟨by rw [q], Or.inl (by rw [q])⟩, by rw [q], by rw [q], by rw [k, q], w⟩
  · obtain ⟨q, k, w⟩ := C13_lookup_question lower cache _ now qu name 16 1 true o h1.symm
    refine ⟨Or.inl ⟨by rw [q], Or.inr (by rw [q])⟩, by rw [q], by rw [q], by rw [k, q], w⟩
  · obtain ⟨q, k, w⟩ := C13_lookup_question lower cache _ now qu server 1 1 false o h1.symm
    refine ⟨Or.inr ⟨by rw [q], Or.inl (by rw [q])⟩, by rw [q], by rw [q], by rw [k, q], w⟩
  · obtain ⟨q, k, w⟩ := C13_lookup_question lower cache _ now qu server 28 1 false o h1.symm
    refine ⟨Or.inr ⟨by rw [q], Or.inr (by rw [q])⟩, by rw [q], by rw [q], by rw [k, q], w⟩

/-- non-vacuity: a type set holding two spellings of one type, QU: the loop lets both through, the dict holds one question -/
example :
    let low : String → String := fun s => if s = "_X._tcp.local." then "_x._tcp.local." else s
    ((serviceQuery low [] 1000 true ["_x._tcp.local.", "_X._tcp.local."] []).1.length,
     (serviceQuestions low [] 1000 true ["_x._tcp.local.", "_X._tcp.local."] []).1.map (·.q.name)) = (2, ["_x._tcp.local."]) := by
  decide

/-! ## the browser's call site -/

/-- `DNSQuestionType` as the leaves carry it (0 = `None`, 1 = QU, 2 = QM) → the `question_type` argument of `quOf` -/
def C13.qtypeOf (n : Nat) : Option Bool := if n = 0 then none else some (n == 1)

/-- **What a browser hands to `generate_service_query`** (`QueryScheduler.async_send_ready_queries`, translated leaves — review E6): its
scheduler pass's own clock, and a question type that makes the query **QU exactly on the first request of a browser with no forced
type**; a forced type is used for every request; an unforced browser's later requests are QM on a multicast browser (`quOf true none`).
Which request is "first" (`_startup_queries_sent == 0`) and when requests are made is C10's (`C10_startup_four`).
**Not tied here**: the `multicast` flag handed over as the fourth argument (`self._multicast`, computed from the browser's address in
`_ServiceBrowserBase.__init__`) — `quOf true` assumes a multicast browser; a wrong flag is caught by C10's harness (`C10:startup-qu`,
`C10:qu-bit-wire`, review r3 m1), not by this check, which runs no browser. -/
theorem C13_browser_call_site (now : Int) (first : Bool) (forced : Nat) :
    Gen.BrowserQuery.query_time now = now ∧
    quOf true (C13.qtypeOf (Gen.BrowserQuery.query_type_arg (Gen.BrowserQuery.question_type (forced == 0) first 1 forced))) =
      (if forced = 0 then first else forced == 1) := by
  refine ⟨GenFacts.QueryMsg.browser_query_time_eq now, ?_⟩
  rw [GenFacts.QueryMsg.browser_question_type_eq]
  by_cases hf : forced = 0
  · subst hf
    cases first <;> simp [C13.qtypeOf, quOf]
  · have : (forced == 0) = false := by simpa using hf
    simp [this, hf, C13.qtypeOf, quOf]

/-! ## split over several packets with the TC bit -/

section split
open Zc.Wire Zc.Wire.Encode Zc.Survive.Comp

/-- the `DNSOutgoing` a lookup hands to `async_send` (`lookupMsg`: the questions of `_generate_request_query` and their known answers
with the query time) or the one of a browser's bucket (`bucketMsg`) — both defined in `Model/SurviveTimers.lean`, where C15 runs them
through the encoder -/
def C13.QueryMsg (m : Encode.Msg) : Prop := (∃ now qs, m = lookupMsg now qs) ∨ (∃ now b, m = bucketMsg now b)

theorem map_some_inj {α : Type} : ∀ (l1 l2 : List α), l1.map some = l2.map some → l1 = l2
  | [], [], _ => rfl
  | [], _ :: _, h => by simp at h
  | _ :: _, [], h => by simp at h
  | a :: l1, b :: l2, h => by
    simp only [List.map_cons, List.cons.injEq, Option.some.injEq] at h
    rw [h.1, map_some_inj l1 l2 h.2]

/-- **Split over several packets with the TC bit** — C13's clause composed with C14's packetisation (`Wire.Encode.packets`, the model of
`DNSOutgoing.packets()`), for lookups and browsers alike.  The datagrams of a query message all decode strictly; **TC is set on every
datagram but the last and clear on the last**; the questions and the known answers of the message are each in exactly one datagram, in
order (nothing is dropped or repeated by the split, each known answer keeps the TTL field computed from the time it was handed over
with); no datagram exceeds 8966 bytes and one above 1460 bytes carries a single entry.

**Partial**: `WFMsg m` and `FitAll m` (C14's quantifier: names of 1–128 labels of 1–63 bytes within 255 octets, 16-bit types, TTLs below
2³², every entry alone fits 8966 bytes) are hypotheses here.  They hold of records that came through the decoder (`C15_encodable`) and of
types/names the application may browse (`TypesSafe`), but that is not derived in this file; and which questions share a *message*
(the bucket grouping by estimated size) is `C13_split_partial`, with the estimate an input. -/
theorem C13_split_on_wire_partial (m : Encode.Msg) (hq : C13.QueryMsg m) (hwf : WFMsg m) (hfit : FitAll m) (pks : List Bytes)
    (h : packets m = .ok pks) :
    ∃ msgs : List WMsg, pks.map Strict.decode = msgs.map some ∧ msgs ≠ [] ∧
      (∀ w ∈ msgs.dropLast, w.flags &&& 512 = 512) ∧ (∀ w, msgs.getLast? = some w → w.flags &&& 512 = 0) ∧
      msgs.flatMap (·.questions) = m.questions.map (EQuestion.onWire true) ∧
      msgs.flatMap (·.answers) = m.answers.map (fun x => x.1.onWire true x.2) ∧
      (∀ p ∈ pks, p.length ≤ 8966 ∧ ∃ w, Strict.decode p = some w ∧ (1460 < p.length → entryCount w = 1)) := by
  have hflags : m.flags = Gen.flagsQrQuery ∧ m.multicast = true := by
    rcases hq with ⟨now, qs, rfl⟩ | ⟨now, b, rfl⟩ <;> exact ⟨rfl, rfl⟩
  have hquery : m.flags &&& 32768 = 0 := by rw [hflags.1]; exact GenFacts.QueryMsg.flagsQrQuery_query.1
  have hnotc : m.flags &&& 512 = 0 := by rw [hflags.1]; exact GenFacts.QueryMsg.flagsQrQuery_query.2
  obtain ⟨msgs, e, ne, -, htc⟩ := C14_tc_bit m hwf hfit pks h hnotc
  obtain ⟨msgs', e', hqs, hans, -, -⟩ := C14_partition m hwf hfit pks h
  have hsame : msgs' = msgs := by
    have : msgs'.map some = msgs.map some := e'.symm.trans e
    exact map_some_inj _ _ this
  subst hsame
  rw [hflags.2] at hqs hans
  exact ⟨msgs', e, ne, (htc hquery).1, (htc hquery).2, hqs, hans, C14_sizes m hwf hfit pks h⟩

/-- non-vacuity of the conclusion only: C14's two-datagram query `exSplit` has the flags of a lookup query, and its packets are a TC
train.  It is **not** shown to be a `C13.QueryMsg` (a `lookupMsg`/`bucketMsg` built from a cache): only the flags are compared; that real
lookup and browser queries split this way is what the `req`/`loop`/`svc` streams observe on the decoded packets. -/
example : exSplit.flags = Gen.flagsQrQuery ∧
    (packets exSplit).toOption.map (fun pks => pks.map (fun p => (Strict.decode p).map (fun w => (w.flags &&& 512, w.questions.length, w.answers.length)))) =
      some [some (512, 1, 1), some (0, 0, 1)] := by
  constructor
  · decide
  · decide +kernel

end split

/-! ## Tie: the questions of a browser query / a lookup query, generated over the *translated* history

`serviceQuestionsG` / `serviceQueryG` / `requestQueryG` (`GenFacts/FnHistoryRun.lean`) are `generate_service_query`'s loop and
`_generate_request_query` with the generated `QuestionHistory` and the translated `suppresses` / `add_question_at_time`.  The twins
below restate `C13_service_query` and `C13_request_query` for them, on any generated history `s` that holds a model history `h` (`Sim`).
The query generators themselves (the loop over the types, the four lookup questions, the known-answer selection) remain hand-written
models; the history they consult and update is the translated code. -/
section Tie
open Zc.Py Zc.GenFn.History Zc.GenFacts.FnHistory Zc.GenFacts.FnHistoryRun

theorem C13_service_query_source {s : QuestionHistory} {h : History} (hs : Sim lower s h) (cache : List Rec) (now : Int) (qu : Bool)
    (tys : List String) :
    (∀ x ∈ (serviceQuestionsG lower cache now qu tys s).1, ∃ ty ∈ tys,
        x.q = { name := ty, type := 12, class_ := 1, unique := qu } ∧ x.known = knownAnswers lower cache ty 12 1 now ∧
        (now ≠ 0 → x.wire = x.known.map (fun r => (r, ((r.created + 1000 * r.ttl - now) / 1000).toNat)))) ∧
    DistinctKeys lower (serviceQuestionsG lower cache now qu tys s).1 ∧
    (∀ o ∈ (serviceQueryG lower cache now qu tys s).1, ∃ y ∈ (serviceQuestionsG lower cache now qu tys s).1, y.q.beq lower o.q = true) ∧
    Sim lower (serviceQuestionsG lower cache now qu tys s).2 (h.seeAll lower (sightingsOf now (serviceQueryG lower cache now qu tys s).1)) := by
  obtain ⟨e1, e2⟩ := serviceQuestionsG_sim lower cache now qu tys hs
  obtain ⟨e3, _⟩ := serviceQueryG_sim lower cache now qu tys hs
  obtain ⟨h1, h2, h3, h4⟩ := C13_service_query lower cache h now qu tys
  rw [e1, e3]
  rw [h4] at e2
  exact ⟨h1, h2, h3, e2⟩

theorem C13_request_query_source {s : QuestionHistory} {h : History} (hs : Sim lower s h) (cache : List Rec) (now : Int) (qu : Bool)
    (name server : String) :
    (∀ o ∈ (requestQueryG lower cache s now qu name server).1,
        ((o.q.name = name ∧ (o.q.type = 33 ∨ o.q.type = 16)) ∨ (o.q.name = server ∧ (o.q.type = 1 ∨ o.q.type = 28))) ∧
        o.q.class_ = 1 ∧ o.q.unique = qu ∧ o.known = knownAnswers lower cache o.q.name o.q.type 1 now ∧
        (now ≠ 0 → o.wire = o.known.map (fun r => (r, ((r.created + 1000 * r.ttl - now) / 1000).toNat)))) ∧
    Sim lower (requestQueryG lower cache s now qu name server).2
      (h.seeAll lower (sightingsOf now (requestQueryG lower cache s now qu name server).1)) := by
  obtain ⟨e1, e2⟩ := requestQueryG_sim lower hs cache now qu name server
  obtain ⟨h1, h2⟩ := C13_request_query lower cache h now qu name server
  rw [e1]
  rw [h2] at e2
  exact ⟨h1, e2⟩

end Tie

end Zc
