import Zc.Proofs.PostState
import Zc.Proofs.Listeners
import Zc.GenFacts.FnCache
import Zc.GenFacts.FnCacheRun
import Zc.Model.BrowserCb
/-! # C05 — record cache: all lookup paths agree with an RFC 6762 §10 reference model

`Cache` (`Zc/Model/Cache.lean`) is `DNSCache` as the code has it: a dict of dicts keyed by lower-cased owner
name plus the SRV index keyed by lower-cased target host, driven by `RecordManager.async_updates_from_response`
(`Zc.ingest`) and the periodic purge (`Zc.expire`).  The reference store (`Zc/Model/CacheSpec.lean`, namespace
`Flat`) is a plain list of records in arrival order with at most one record per identity; its lookups are filters.
**Both are driven by the same record-manager code** (`Zc.ingest` is written over an abstract cache), so
`C05_paths_agree` is a *container refinement*: whatever sequence of datagrams and purges arrives, the indexed cache
and the flat store hold the same records with the same creation time and TTL, on every lookup path.  The RFC 6762 §10
content — what one datagram does to one identity — is the declarative `PostState` (`Zc/Proofs/PostState.lean`), proved
for the flat store there and composed with the refinement here: `C05_datagram_step` says that what `get` /
`async_get_unique` return for an identity after one more datagram is `PostState` of what they returned before (C06 states
the same for `ingest`'s own output).  The independent reference of stage O is `harness/cachecommon.py:Ref`.

`str.lower` is an arbitrary function `lower`.  The model mirrors the code with the D4 repair
(`notes/fixes/D4.diff`); on the unrepaired tree the correspondence check reports the divergence of `get`
and `entries_with_name` with a concrete history. -/
namespace Zc

section
variable (lower : String → String)

/-- the indexed cache after a history, started empty -/
def cacheAfter (evs : List Event) : Cache := runEvents lower (Cache.ops lower) {} evs
/-- the reference store after the same history -/
def specAfter (evs : List Event) : List Rec := runEvents lower (Flat.ops lower) [] evs

/-- structural invariant of `DNSCache` (DESIGN §7 C05 `CacheInv`; the "key object = value object" clause holds
by construction in the model of the repaired `_async_add`) -/
structure CacheInv (c : Cache) : Prop where
  keysNodup : c.cache.keys.Nodup
  svcKeysNodup : c.svc.keys.Nodup
  noEmptyBucket : ∀ k b, (k, b) ∈ c.cache → b ≠ []
  noEmptySvcBucket : ∀ k b, (k, b) ∈ c.svc → b ≠ []
  /-- a bucket holds only records of its own (lower-cased) name -/
  bucketKey : ∀ k b, (k, b) ∈ c.cache → ∀ e ∈ b, lower e.name = k
  /-- … and at most one record per identity -/
  onePerIdentity : ∀ k b, (k, b) ∈ c.cache → b.Pairwise (fun x y => x.beq lower y = false)
  /-- the SRV index lists exactly the cached SRV records, under their lower-cased target host -/
  svcMirrors : ∀ h e, e ∈ c.svc.get h ↔ (e ∈ c.cache.get (lower e.name) ∧ e.serverKey lower = some h)

variable {lower}

theorem CacheInv.of_refines {c : Cache} {s : List Rec} (h : Refines lower c s) (hw : Flat.WF lower s) : CacheInv lower c := by
  have hb : ∀ k b, (k, b) ∈ c.cache → b = s.filter (fun r => decide (nameKey lower r = some k)) := by
    intro k b hm
    have := Index.find?_of_mem _ h.byName.keys hm
    rw [← h.byName.get k]; simp [Index.get, this]
  refine ⟨h.byName.keys, h.byServer.keys, ?_, ?_, ?_, ?_, ?_⟩
  · intro k b hm; exact h.byName.nonempty k b (Index.find?_of_mem _ h.byName.keys hm)
  · intro k b hm; exact h.byServer.nonempty k b (Index.find?_of_mem _ h.byServer.keys hm)
  · intro k b hm e he
    rw [hb k b hm, List.mem_filter] at he
    simpa [nameKey] using he.2
  · intro k b hm
    rw [hb k b hm]
    exact (List.Pairwise.filter _ hw).imp (fun hab => (beq_false_iff_ident lower _ _).2 hab)
  · intro k e
    rw [h.byServer.get, h.byName.get, List.mem_filter, List.mem_filter]
    simp [nameKey]

variable (lower)

/-- **C05 (invariant).** After any sequence of response datagrams and purges the cache's two indexes are
consistent: no duplicate or empty buckets, every record under its own name, one record per identity, and the
SRV index mirrors the SRV records of the name index. -/
theorem C05_inv (evs : List Event) : CacheInv lower (cacheAfter lower evs) :=
  let h := (Refines.empty lower).runEvents (by simp [Flat.WF]) evs
  CacheInv.of_refines h.1 h.2

/-- what "all lookup paths agree" means for a cache `c` and a reference store `s` -/
structure PathsAgree (c : Cache) (s : List Rec) : Prop where
  get : ∀ r, c.get lower r = Flat.get lower s r
  getUnique : ∀ r, c.getUnique lower r = Flat.getUnique lower s r
  getByDetails : ∀ n t cl, c.getByDetails lower n t cl = Flat.getByDetails lower s n t cl
  getAllByDetails : ∀ n t cl, c.getAllByDetails lower n t cl = Flat.getAllByDetails lower s n t cl
  entriesWithName : ∀ n, c.entriesWithName lower n = Flat.entriesWithName lower s n
  entriesWithServer : ∀ n, c.entriesWithServer lower n = Flat.entriesWithServer lower s n
  /-- the event-loop-only twins `async_entries_with_name`, `async_entries_with_server`, `async_all_by_details` -/
  asyncEntriesWithName : ∀ n, c.asyncEntriesWithName lower n = Flat.entriesWithName lower s n
  asyncEntriesWithServer : ∀ n, c.asyncEntriesWithServer lower n = Flat.entriesWithServer lower s n
  asyncAllByDetails : ∀ n t cl, c.asyncAllByDetails lower n t cl = Flat.getAllByDetails lower s n t cl
  namesNodup : c.names.Nodup
  names : ∀ k, k ∈ c.names ↔ Flat.hasName lower s k

/-- **C05 (lookup paths).** After any sequence of response datagrams (any records, TTLs, flush bits, repeats,
spellings) and purges at any instants, every lookup path of the cache — by exact record (`get`,
`async_get_unique`), by name/type/class (`get_by_details`, `get_all_by_details`), by name, by SRV target
host, and the list of names — returns exactly what the flat RFC 6762 §10 reference store returns for the same
history: the same records, the same creation times and TTLs, in the same (arrival) order. -/
theorem C05_paths_agree (evs : List Event) : PathsAgree lower (cacheAfter lower evs) (specAfter lower evs) := by
  have h := (Refines.empty lower).runEvents (by simp [Flat.WF]) evs
  exact ⟨h.1.get h.2, h.1.getUnique, h.1.getByDetails, h.1.getAllByDetails, h.1.entriesWithName,
    h.1.entriesWithServer, h.1.entriesWithName, h.1.entriesWithServer, h.1.getAllByDetails, h.1.names.1, h.1.names.2⟩

/-- the reference store never holds two records of one identity -/
theorem C05_spec_one_per_identity (evs : List Event) :
    (specAfter lower evs).Pairwise (fun a b => a.beq lower b = false) :=
  ((Refines.empty lower).runEvents (by simp [Flat.WF]) evs).2.imp (fun hab => (beq_false_iff_ident lower _ _).2 hab)

/-- **C05 (purge).** A purge at `now` after any history never raises, removes exactly the cached records whose
TTL has fully elapsed (`created + 1000·ttl ≤ now`) and keeps all others untouched, and the list handed to the
listeners contains each removed record exactly once (it is a permutation of the expired records of the
reference store, which holds one record per identity). -/
theorem C05_purge_exact (evs : List Event) (now : Ms) :
    ∃ c' reported, expire (Cache.ops lower) (cacheAfter lower evs) now = .ok (c', reported)
      ∧ reported.Perm ((specAfter lower evs).filter (fun e => decide (e.created + 1000 * (e.ttl : Int) ≤ now)))
      ∧ reported.Nodup
      ∧ PathsAgree lower c' ((specAfter lower evs).filter (fun e => decide (¬ e.created + 1000 * (e.ttl : Int) ≤ now))) := by
  have h := (Refines.empty lower).runEvents (by simp [Flat.WF]) evs
  obtain ⟨c', l, hc, hp, hr⟩ := h.1.expire h.2 now
  have e1 : (specAfter lower evs).filter (fun e => e.isExpired now) = (specAfter lower evs).filter (fun e => decide (e.created + 1000 * (e.ttl : Int) ≤ now)) :=
    List.filter_congr (fun x _ => by rw [Bool.eq_iff_iff, isExpired_iff]; simp)
  have e2 : (specAfter lower evs).filter (fun e => !(e.isExpired now)) = (specAfter lower evs).filter (fun e => decide (¬ e.created + 1000 * (e.ttl : Int) ≤ now)) :=
    List.filter_congr (fun x _ => by
      rw [Bool.eq_iff_iff]
      simp only [Bool.not_eq_true', decide_eq_true_eq]
      rw [← isExpired_iff]; simp)
  have hw' : Flat.WF lower ((specAfter lower evs).filter (fun e => !(e.isExpired now))) := List.Pairwise.filter _ h.2
  refine ⟨c', l, hc, e1 ▸ hp, ?_, e2 ▸ ⟨hr.get hw', hr.getUnique, hr.getByDetails, hr.getAllByDetails, hr.entriesWithName,
    hr.entriesWithServer, hr.entriesWithName, hr.entriesWithServer, hr.getAllByDetails, hr.names.1, hr.names.2⟩⟩
  -- distinct identities ⇒ distinct records
  have hd : ((specAfter lower evs).filter (fun e => e.isExpired now)).Nodup :=
    (List.Pairwise.filter _ h.2).imp (fun hab heq => hab (by rw [heq]))
  exact hp.symm.nodup_iff.1 hd |> fun x => x

/-- **C05 (purge, as the listeners see it).**  After any history, the periodic purge with any listener set: it does not
raise; every listener registered when it starts is handed, once, the list `(record, record)` of exactly the purged records
(`reported` of `C05_purge_exact`: a duplicate-free permutation of the expired records) — also when nothing expired — and then,
once, the complete call, whatever the callbacks do to the listener set; waiters are not notified (`async_updates_complete(False)`);
the cache the listeners see is the purged one. -/
theorem C05_purge_listeners (evs : List Event) (order : List Nat → List Nat) (ls : List Nat) (now : Ms)
    (react1 react2 : Nat → List ListenerAct) :
    ∃ d reported, deliverPurge lower order (cacheAfter lower evs) ls now react1 react2 = .ok d
      ∧ expire (Cache.ops lower) (cacheAfter lower evs) now = .ok (d.cache, reported)
      ∧ d.pairs = reported.map (fun r => (r, some r))
      ∧ d.round1 = order ls ∧ d.round2 = order (notifyRound (order ls) react1).live
      ∧ d.err = none ∧ d.notify = false := by
  obtain ⟨c', reported, hc, _⟩ := C05_purge_exact lower evs now
  have hdef : ∀ (l : List Nat) (r : Nat → List ListenerAct), notifyRoundWith true true l r = notifyRound l r := fun _ _ => rfl
  have hd : deliverPurge lower order (cacheAfter lower evs) ls now react1 react2 = .ok
      { cache := c', pairs := reported.map (fun r => (r, some r)),
        listeners := (notifyRound (order (notifyRound (order ls) react1).live) react2).live,
        round1 := (notifyRound (order ls) react1).called,
        round2 := (notifyRound (order (notifyRound (order ls) react1).live) react2).called,
        err := (notifyRound (order (notifyRound (order ls) react1).live) react2).err, notify := false } := by
    unfold deliverPurge deliverPurgeWith
    rw [purge_expire_now_eq, hc]
    simp only [updates_iterates_copy_eq, complete_iterates_copy_eq, remove_listener_catches_keyerror_eq, hdef, bind, Except.bind,
      notifyRound_ok, pure, Except.pure]
  exact ⟨_, reported, hd, hc, rfl, notifyRound_called _ _, notifyRound_called _ _, notifyRound_ok _ _, rfl⟩

/-- **C05 (the purge, listener by listener).**  "Reports each to listeners exactly once" is about *every* listener: `async_updates`
passes one `records` object to all of them, and because that object is a list (generated leaf `purge_updates_is_list`) each listener
registered when the purge starts — not only the first of the set — is handed the `(record, record)` pairs of exactly the purged records. -/
theorem C05_purge_each_listener_told (evs : List Event) (order : List Nat → List Nat) (ls : List Nat) (now : Ms)
    (react1 react2 : Nat → List ListenerAct) :
    ∃ d reported, deliverPurge lower order (cacheAfter lower evs) ls now react1 react2 = .ok d
      ∧ expire (Cache.ops lower) (cacheAfter lower evs) now = .ok (d.cache, reported)
      ∧ (∀ l ∈ order ls, d.told Gen.Cache.purge_updates_is_list l = some (reported.map (fun r => (r, some r))))
      ∧ (∀ l, l ∉ order ls → d.told Gen.Cache.purge_updates_is_list l = none) := by
  obtain ⟨d, reported, hd, hc, hp, h1, _⟩ := C05_purge_listeners lower evs order ls now react1 react2
  refine ⟨d, reported, hd, hc, fun l hl => ?_, fun l hl => ?_⟩
  · simp [PurgeDelivery.told, toldAt, purge_updates_is_list_eq, h1, hl, hp]
  · simp [PurgeDelivery.told, h1, hl]

/-- with a generator in place of the list only the first listener of the set would be told: listener 2 of `[1, 2]` gets nothing -/
example :
    let t1 : Rec := ⟨"a.local.", 16, 1, false, 1, 0, .txt [1]⟩
    ((deliverPurge id id (cacheAfter id [.datagram 1000 [t1]]) [1, 2] 2000 (fun _ => []) (fun _ => [])).toOption.map
      (fun d => ((d.told false 1).map List.length, (d.told false 2).map List.length, (d.told true 2).map List.length)))
      = some (some 1, some 0, some 1) := by
  decide

/-- **C05 (the purge at listener registration, as the listeners see it).**  `async_add_listener(l, question)` (every browser and
lookup start) purges before it adds `l`.  After any history, with any listener set: it does not raise; the cache the listeners see is
the purged one, swept at the one instant read; if nothing expired **nobody is called** (unlike the periodic purge); otherwise every
listener registered before is handed, once, the `(record, record)` pairs of exactly the purged records and then, once, the complete
call, whatever `set.add`/`set.remove` actions the callbacks perform; waiters are not notified. -/
theorem C05_creation_purge_listeners (evs : List Event) (order : List Nat → List Nat) (ls : List Nat) (now : Ms)
    (react1 react2 : Nat → List ListenerAct) :
    ∃ d reported, deliverCreationPurge lower order (cacheAfter lower evs) ls now react1 react2 = .ok d
      ∧ expire (Cache.ops lower) (cacheAfter lower evs) now = .ok (d.cache, reported)
      ∧ d.err = none ∧ d.notify = false
      ∧ (reported = [] → d.pairs = [] ∧ d.round1 = [] ∧ d.round2 = [] ∧ d.listeners = ls)
      ∧ (reported ≠ [] → d.pairs = reported.map (fun r => (r, some r))
            ∧ d.round1 = order ls ∧ d.round2 = order (notifyRound (order ls) react1).live) := by
  obtain ⟨c', reported, hc, _⟩ := C05_purge_exact lower evs now
  have hdef : ∀ (l : List Nat) (r : Nat → List ListenerAct), notifyRoundWith true true l r = notifyRound l r := fun _ _ => rfl
  cases hr : reported with
  | nil =>
    subst hr
    refine ⟨{ cache := c', pairs := [], listeners := ls, round1 := [], round2 := [], err := none, notify := false }, [], ?_, hc, rfl, rfl,
      fun _ => ⟨rfl, rfl, rfl, rfl⟩, fun h => absurd rfl h⟩
    unfold deliverCreationPurge deliverCreationPurgeWith
    rw [add_listener_purge_expire_now_eq, hc]
    rfl
  | cons r0 rest =>
    subst hr
    refine ⟨{ cache := c', pairs := (r0 :: rest).map (fun r => (r, some r)),
              listeners := (notifyRound (order (notifyRound (order ls) react1).live) react2).live,
              round1 := (notifyRound (order ls) react1).called,
              round2 := (notifyRound (order (notifyRound (order ls) react1).live) react2).called,
              err := (notifyRound (order (notifyRound (order ls) react1).live) react2).err, notify := false }, r0 :: rest, ?_, hc,
      notifyRound_ok _ _, rfl, fun h => (by cases h), fun _ => ⟨rfl, notifyRound_called _ _, notifyRound_called _ _⟩⟩
    unfold deliverCreationPurge deliverCreationPurgeWith
    rw [add_listener_purge_expire_now_eq, hc]
    simp only [updates_iterates_copy_eq, complete_iterates_copy_eq, remove_listener_catches_keyerror_eq, hdef, bind, Except.bind,
      notifyRound_ok, pure, Except.pure, List.isEmpty_cons, Bool.false_eq_true, if_false]

theorem cacheAfter_snoc (hist : List Event) (ev : Event) :
    cacheAfter lower (hist ++ [ev]) = stepEvent lower (Cache.ops lower) (cacheAfter lower hist) ev := by
  unfold cacheAfter runEvents
  rw [List.foldl_append]; rfl

/-- **C05 (one more datagram, per identity — the RFC 6762 §10 content on the cache's own lookup paths).**  After any
history, for every record identity `q`: what `get` and `async_get_unique` return for `q` after one more datagram `recs` at
`now` is `PostState` of what they returned before it — removed iff cached and withdrawn; else refreshed to (arrival time,
last non-zero TTL, pointer TTLs floored to 1125 s), or marked `(now, 1)` iff the cache-flush rule applies, or untouched; a new
record is stored with (arrival time, floored TTL).  (All other paths return the same records by `C05_paths_agree`.) -/
theorem C05_datagram_step (evs : List Event) (now : Ms) (recs : List Rec) (q : Rec) :
    PostState lower now recs q ((cacheAfter lower evs).get lower q) ((cacheAfter lower (evs ++ [.datagram now recs])).get lower q)
    ∧ PostState lower now recs q ((cacheAfter lower evs).getUnique lower q)
        ((cacheAfter lower (evs ++ [.datagram now recs])).getUnique lower q) := by
  have h0 := (Refines.empty lower).runEvents (by simp [Flat.WF]) evs
  have h1 := (Refines.empty lower).runEvents (by simp [Flat.WF]) (evs ++ [.datagram now recs])
  obtain ⟨o, ho, hpost⟩ := Flat.postState (lower := lower) (runEvents lower (Flat.ops lower) [] evs) now recs
  have hspec : runEvents lower (Flat.ops lower) [] (evs ++ [.datagram now recs]) = o.cache := by
    unfold runEvents
    rw [List.foldl_append]
    simp only [List.foldl_cons, List.foldl_nil, stepEvent]
    have : List.foldl (stepEvent lower (Flat.ops lower)) [] evs = runEvents lower (Flat.ops lower) [] evs := rfl
    rw [this, ho]
  have hp := hpost q
  unfold cacheAfter
  rw [h0.1.get h0.2 q, h1.1.get h1.2 q, h0.1.getUnique q, h1.1.getUnique q, hspec]
  exact ⟨hp, hp⟩

/-- an event that neither withdraws, nor refreshes, nor flushes the record of `q`, nor purges at or after `deadline` -/
def Quiet (q : Rec) (deadline : Ms) : Event → Prop
  | .datagram _ recs => (∀ r ∈ recs, r.ident lower ≠ q.ident lower)
      ∧ (∀ u ∈ recs, u.unique = true → ¬ (lower u.name = lower q.name ∧ u.type = q.type ∧ u.class_ = q.class_))
  | .purge now => now < deadline

theorem refresh_safe_aux {c : Cache} {s : List Rec} (h : Refines lower c s) (hw : Flat.WF lower s) (q e : Rec)
    (he : Flat.getUnique lower s q = some e) (evs : List Event)
    (hquiet : ∀ ev ∈ evs, Quiet lower q (e.created + 1000 * (e.ttl : Int)) ev) :
    (runEvents lower (Cache.ops lower) c evs).getUnique lower q = some e := by
  induction evs generalizing c s with
  | nil => rw [runEvents, List.foldl_nil, h.getUnique q]; exact he
  | cons ev t ih =>
    have hstep := h.stepEvent hw ev
    have hkeep := Flat.stepEvent_keeps (lower := lower) s hw he ev (by
      have := hquiet ev (by simp)
      cases ev with
      | datagram now recs => exact this
      | purge now => exact this)
    exact ih hstep.1 hstep.2 hkeep (fun ev' hev' => hquiet ev' (by simp [hev']))

/-- **C05 (refresh safety).**  After any history, let a datagram arriving at `t` carry a non-zero copy of a
record and no goodbye for it; let `T` be the (floored) TTL of its last non-zero copy.  Then, through any
further sequence of datagrams that contain neither that record (no later refresh, no withdrawal) nor a
cache-flush record of its name/type/class, and of purges at any instants before `t + 1000·T`, the record is
still cached with creation time `t` and TTL `T`: it is never purged before its latest TTL runs out. -/
theorem C05_refresh_safe (evs : List Event) (t : Ms) (recs : List Rec) (q r : Rec)
    (hlive : lastLive lower recs q = some r) (hng : hasGoodbye lower recs q = false)
    (later : List Event) (hquiet : ∀ ev ∈ later, Quiet lower q (t + 1000 * (storedTtl r.type r.ttl : Int)) ev) :
    ∃ e, (cacheAfter lower (evs ++ [.datagram t recs] ++ later)).getUnique lower q = some e
      ∧ e.created = t ∧ e.ttl = storedTtl r.type r.ttl := by
  have h0 := (Refines.empty lower).runEvents (by simp [Flat.WF]) evs
  have h1 := h0.1.stepEvent h0.2 (.datagram t recs)
  -- the record right after the refreshing datagram
  have hafter : ∃ e, Flat.getUnique lower (stepEvent lower (Flat.ops lower) (runEvents lower (Flat.ops lower) [] evs) (.datagram t recs)) q = some e
      ∧ e.created = t ∧ e.ttl = storedTtl r.type r.ttl := by
    obtain ⟨o, ho, hpost⟩ := Flat.postState (lower := lower) (runEvents lower (Flat.ops lower) [] evs) t recs
    simp only [stepEvent, ho]
    have hp := hpost q
    unfold PostState at hp
    cases hb : Flat.getUnique lower (runEvents lower (Flat.ops lower) [] evs) q with
    | none =>
      rw [hb] at hp
      simp only [hlive, Option.map_some] at hp
      exact ⟨_, hp, rfl, rfl⟩
    | some e0 =>
      rw [hb] at hp
      simp only [hng, Bool.false_eq_true, if_false] at hp
      obtain ⟨e', he', hr⟩ := hp
      unfold Refreshed at hr
      rw [lastLive_congr recs (Flat.getUnique_ident hb), hlive] at hr
      simp only [] at hr
      exact ⟨e', he', by rw [hr]; rfl, by rw [hr]; rfl⟩
  obtain ⟨e, he, hc, ht⟩ := hafter
  refine ⟨e, ?_, hc, ht⟩
  unfold cacheAfter runEvents
  rw [List.foldl_append, List.foldl_append]
  simp only [List.foldl_cons, List.foldl_nil]
  exact refresh_safe_aux lower h1.1 h1.2 q e he later (by rw [hc, ht]; exact hquiet)

/-- non-vacuity of the hypotheses of `C05_refresh_safe`: a PTR received twice in one datagram (TTL 120, floored to
1125 s), then an unrelated flush record and a purge one millisecond before the deadline -/
example :
    let p : Rec := ⟨"_x._tcp.local.", 12, 1, false, 120, 0, .ptr "a._x._tcp.local."⟩
    lastLive id [p, p] p = some p ∧ hasGoodbye id [p, p] p = false ∧ storedTtl p.type p.ttl = 1125
    ∧ Quiet id p (1000 + 1000 * 1125) (.purge 1125999)
    ∧ Quiet id p (1000 + 1000 * 1125) (.datagram 5000 [⟨"h.local.", 1, 1, true, 120, 0, .addr [10, 0, 0, 1] none⟩]) := by
  refine ⟨by decide, by decide, by decide, (by decide : (1125999 : Int) < 1000 + 1000 * 1125), ?_⟩
  constructor
  · intro r hr; simp at hr; subst hr; decide
  · intro u hu; simp at hu; subst hu; decide

/-- non-vacuity of `C05_paths_agree`: the same new pointer record twice in one datagram (the D4 input) is one record of the
reference store -/
example : ∃ evs : List Event, (specAfter id evs).length = 1 :=
  ⟨[.datagram 1000 [⟨"_x._tcp.local.", 12, 1, false, 4500, 0, .ptr "a._x._tcp.local."⟩,
                    ⟨"_x._tcp.local.", 12, 1, false, 4500, 0, .ptr "a._x._tcp.local."⟩]], by decide⟩

/-- `C05_purge_exact` at work: TXT records with TTL 1 s and 2 s received at 1000 ms; the purge at 2000 ms reports exactly
the first and keeps the second -/
example :
    let t1 : Rec := ⟨"a.local.", 16, 1, false, 1, 0, .txt [1]⟩
    let t2 : Rec := ⟨"a.local.", 16, 1, false, 2, 0, .txt [2]⟩
    ((expire (Cache.ops id) (cacheAfter id [.datagram 1000 [t1, t2]]) 2000).toOption.map
      (fun o => (o.2.map (fun r => r.ttl), (o.1.entriesWithName id "a.local.").map (fun r => r.ttl)))) = some ([1], [2]) := by
  decide

/-! ## Tie: the source of `_cache.py`, translated statement by statement on every run

`Zc.GenFn.Cache` is regenerated from the *bodies* of `_remove_key` and of `DNSCache`'s methods (`tools/gen_fn.py`);
`GenFacts/FnCache.lean` proves, function by function and under the representation invariant `CInv` (every dict is a dict;
in every store key and value are the same record — what the D4 repair establishes; preserved by every mutator), that
the hand-written `Cache` model computes what those bodies compute.  The record manager (`Zc.ingest`) and the purge
(`Zc.expire`) use the cache only through `CacheOps`; four of its six operations are translated code (`resetTtl` and
`markFlush` mutate record objects that live in both indexes: outside the translated subset, tied by the differential).
**Transported along every history** (`GenFacts/FnCacheRun.lean`): `srcCacheAfter lower evs` is the *generated* `DNSCache` after the
datagrams and purges `evs`, stepped by `ingest` / `expire` over `srcOps` — `CacheOps` whose `add`, `remove`, `getUnique`, `allRecs` are the
translated `_async_add`, `_async_remove`, `async_get_unique` and the store iteration, and whose `resetTtl` / `markFlush` (in-place mutation
of record objects living in both indexes: outside the translated subset) are hand-modelled on the generated representation and proved to
act as the model's and to keep `CInv` (`residual_ok`).  `srcCacheAfter_abs`: its abstraction is `cacheAfter lower evs` and it satisfies
`CInv`.  Hence the `_source` twins below: `C05_paths_agree_source`, `C05_purge_exact_source_run` (and `C06_post_state_source`,
`C06_flush_exact_source`, `C04_live_eq_cache_source` in their files) speak about the generated cache and the translated readers.
**Still not transported**: `ingest` itself (the loop of `async_updates_from_response`, the listener calls) is a hand-written model of the
record manager, not translated code; `resetTtl` / `markFlush` as said. -/
section Tie
open Zc.Py Zc.GenFn.Cache Zc.GenFacts.FnCache

/-- **The cache operations the record manager model uses are the translated source** (on any generated cache that satisfies
the representation invariant): `_async_add`, `_async_remove`, `async_get_unique`, and the iteration of `async_expire`. -/
theorem C05_cache_ops_are_source (s : DNSCache) (h : CInv lower s) (r : Rec) :
    (DNSCache.async_add lower s r).map (fun p => (absC p.2, p.1)) = .ok ((Cache.ops lower).add (absC s) r)
    ∧ (DNSCache.async_remove lower s r).map absC = (Cache.ops lower).remove (absC s) r
    ∧ s.async_get_unique lower r = (Cache.ops lower).getUnique (absC s) r
    ∧ (PyDict.values s.cache).flatMap PyDict.keys = (Cache.ops lower).allRecs (absC s) :=
  ⟨async_add_eq lower s r h, async_remove_eq lower s r h, async_get_unique_eq lower s r h,
   by simp only [Cache.ops, Cache.allRecs, absC, allRecs_abs]⟩

/-- **Every translated reader is the model's reader** (so `PathsAgree` speaks about the translated look-up functions) -/
theorem C05_readers_are_source (s : DNSCache) (h : CInv lower s) (r : Rec) (name : String) (ty cls : Nat) :
    s.get lower r = Cache.get lower (absC s) r
    ∧ s.async_get_unique lower r = Cache.getUnique lower (absC s) r
    ∧ s.get_by_details lower name ty cls = Cache.getByDetails lower (absC s) name ty cls
    ∧ s.get_all_by_details lower name ty cls = Cache.getAllByDetails lower (absC s) name ty cls
    ∧ s.async_all_by_details lower name ty cls = Cache.asyncAllByDetails lower (absC s) name ty cls
    ∧ s.entries_with_name lower name = Cache.entriesWithName lower (absC s) name
    ∧ s.entries_with_server lower name = Cache.entriesWithServer lower (absC s) name
    ∧ PyDict.keys (s.async_entries_with_name lower name) = Cache.asyncEntriesWithName lower (absC s) name
    ∧ PyDict.keys (s.async_entries_with_server lower name) = Cache.asyncEntriesWithServer lower (absC s) name
    ∧ s.names = Cache.names (absC s) :=
  ⟨get_eq lower s r h, async_get_unique_eq lower s r h, get_by_details_eq lower s name ty cls, get_all_by_details_eq lower s name ty cls,
   async_all_by_details_eq lower s name ty cls, entries_with_name_eq lower s name, entries_with_server_eq lower s name,
   async_entries_with_name_eq lower s name, async_entries_with_server_eq lower s name, names_eq s⟩

/-- **C05 (purge) for the translated `async_expire`.**  On a generated cache that holds the records of a reference store `sp`
(one record per identity), the translated purge does not raise (no `KeyError` from `_remove_key`), returns a permutation of
exactly the records of `sp` whose TTL has fully elapsed, and leaves a cache that holds exactly the others. -/
theorem C05_purge_exact_source (s : DNSCache) (h : CInv lower s) (sp : List Rec) (hr : Refines lower (absC s) sp)
    (hw : Flat.WF lower sp) (now : Ms) :
    ∃ reported s', DNSCache.async_expire lower s now = .ok (reported, s')
      ∧ reported.Perm (sp.filter (fun e => decide (e.created + 1000 * (e.ttl : Int) ≤ now)))
      ∧ Refines lower (absC s') (sp.filter (fun e => !(e.isExpired now))) ∧ CInv lower s' := by
  obtain ⟨c', l, hc, hp, hr'⟩ := hr.expire hw now
  have h1 := async_expire_eq lower s now h
  rw [hc] at h1
  cases h2 : DNSCache.async_expire lower s now with
  | error e => rw [h2] at h1; cases h1.1
  | ok p =>
    rw [h2] at h1
    have h3 := h1.1
    simp only [Except.map, Except.ok.injEq, Prod.mk.injEq] at h3
    have e1 : sp.filter (fun e => e.isExpired now) = sp.filter (fun e => decide (e.created + 1000 * (e.ttl : Int) ≤ now)) :=
      List.filter_congr (fun x _ => by rw [Bool.eq_iff_iff, isExpired_iff]; simp)
    exact ⟨p.1, p.2, rfl, by rw [h3.2, ← e1]; exact hp, by rw [h3.1]; exact hr', h1.2 p.1 p.2 rfl⟩

/-- **Along every history of translated cache calls** (`async_add_records` / `async_remove_records` / `async_expire` in any
order on a fresh `DNSCache`) the generated cache and the model cache raise the same exception at the same call or end in
corresponding states, and the representation invariant holds. -/
theorem C05_cache_history_is_source (ops : List COp) :
    (runGen lower ops DNSCache.init).map absC = runModel lower ops {}
    ∧ ∀ s', runGen lower ops DNSCache.init = .ok s' → CInv lower s' :=
  run_eq lower ops DNSCache.init (cinv_init lower)

/-- non-vacuity: the D4 input on the translated code — the same pointer record added twice, then a refreshed copy: one entry,
the refreshed one, on both look-up paths -/
example :
    let p (c : Int) : Rec := ⟨"_x._tcp.local.", 12, 1, false, 4500, c, .ptr "a._x._tcp.local."⟩
    (((DNSCache.async_add_records id DNSCache.init [p 0, p 0, p 1000]).toOption.map
      (fun o => (o.1, (o.2.entries_with_name id "_x._tcp.local.").map (·.created), (o.2.get id (p 5)).map (·.created)))))
      = some (true, [1000], some 1000) := by
  decide

/-- **The record manager's work on a datagram, and the purge, over the translated cache operations, are the model's** (under `CInv`
and the residual hypothesis on the two untranslated mutators): so every theorem of this file about `ingest (Cache.ops lower)` /
`expire (Cache.ops lower)` on `absC s` speaks about the run that calls the translated `_async_add`, `_async_remove`,
`async_get_unique` and iterates the translated store -/
theorem C05_ingest_is_source {resetTtlG : DNSCache → Rec → DNSCache}
    {markFlushG : DNSCache → List (String × Nat × Nat) → List Rec → Ms → DNSCache}
    (hres : Zc.GenFacts.FnCacheRun.ResidualOk lower resetTtlG markFlushG) (s : DNSCache) (h : CInv lower s) (now : Ms) (recs : List Rec) :
    (ingest lower (Zc.GenFacts.FnCacheRun.genOps lower resetTtlG markFlushG) s now recs).map (Zc.GenFacts.FnCacheRun.outMap absC)
        = ingest lower (Cache.ops lower) (absC s) now recs
    ∧ (expire (Zc.GenFacts.FnCacheRun.genOps lower resetTtlG markFlushG) s now).map (fun p => (absC p.1, p.2))
        = expire (Cache.ops lower) (absC s) now :=
  ⟨Zc.GenFacts.FnCacheRun.ingest_gen lower hres s h now recs, Zc.GenFacts.FnCacheRun.expire_gen lower hres s h now⟩

open Zc.GenFacts.FnCacheRun in
/-- **C05 (lookup paths), for the generated cache and the translated readers.**  After any sequence of response datagrams and purges,
stepped through the translated cache operations, every translated look-up function returns what the flat reference store returns -/
theorem C05_paths_agree_source (evs : List Event) (r : Rec) (name : String) (ty cls : Nat) :
    (srcCacheAfter lower evs).get lower r = Flat.get lower (specAfter lower evs) r
    ∧ (srcCacheAfter lower evs).async_get_unique lower r = Flat.getUnique lower (specAfter lower evs) r
    ∧ (srcCacheAfter lower evs).get_by_details lower name ty cls = Flat.getByDetails lower (specAfter lower evs) name ty cls
    ∧ (srcCacheAfter lower evs).get_all_by_details lower name ty cls = Flat.getAllByDetails lower (specAfter lower evs) name ty cls
    ∧ (srcCacheAfter lower evs).async_all_by_details lower name ty cls = Flat.getAllByDetails lower (specAfter lower evs) name ty cls
    ∧ (srcCacheAfter lower evs).entries_with_name lower name = Flat.entriesWithName lower (specAfter lower evs) name
    ∧ (srcCacheAfter lower evs).entries_with_server lower name = Flat.entriesWithServer lower (specAfter lower evs) name
    ∧ PyDict.keys ((srcCacheAfter lower evs).async_entries_with_name lower name) = Flat.entriesWithName lower (specAfter lower evs) name
    ∧ PyDict.keys ((srcCacheAfter lower evs).async_entries_with_server lower name) = Flat.entriesWithServer lower (specAfter lower evs) name
    ∧ (srcCacheAfter lower evs).names.Nodup
    ∧ (∀ k, k ∈ (srcCacheAfter lower evs).names ↔ Flat.hasName lower (specAfter lower evs) k) := by
  obtain ⟨ha, hi⟩ := srcCacheAfter_abs lower evs
  obtain ⟨r1, r2, r3, r4, r5, r6, r7, r8, r9, r10⟩ := C05_readers_are_source lower (srcCacheAfter lower evs) hi r name ty cls
  have hp := C05_paths_agree lower evs
  unfold cacheAfter at hp
  rw [← ha] at hp
  refine ⟨?_, ?_, ?_, ?_, ?_, ?_, ?_, ?_, ?_, ?_, ?_⟩
  · rw [r1]; exact hp.get r
  · rw [r2]; exact hp.getUnique r
  · rw [r3]; exact hp.getByDetails name ty cls
  · rw [r4]; exact hp.getAllByDetails name ty cls
  · rw [r5]; exact hp.asyncAllByDetails name ty cls
  · rw [r6]; exact hp.entriesWithName name
  · rw [r7]; exact hp.entriesWithServer name
  · rw [r8]; exact hp.asyncEntriesWithName name
  · rw [r9]; exact hp.asyncEntriesWithServer name
  · rw [r10]; exact hp.namesNodup
  · intro k; rw [r10]; exact hp.names k

open Zc.GenFacts.FnCacheRun in
/-- **C05 (purge), for the translated `async_expire` after any history** stepped through the translated operations: it does not raise,
reports a permutation of exactly the records of the reference store whose TTL has fully elapsed, and leaves a cache that satisfies the
representation invariant and holds exactly the others -/
theorem C05_purge_exact_source_run (evs : List Event) (now : Ms) :
    ∃ reported s', DNSCache.async_expire lower (srcCacheAfter lower evs) now = .ok (reported, s')
      ∧ reported.Perm ((specAfter lower evs).filter (fun e => decide (e.created + 1000 * (e.ttl : Int) ≤ now)))
      ∧ Refines lower (absC s') ((specAfter lower evs).filter (fun e => !(e.isExpired now))) ∧ CInv lower s' := by
  obtain ⟨ha, hi⟩ := srcCacheAfter_abs lower evs
  have h := (Refines.empty lower).runEvents (by simp [Flat.WF]) evs
  have hr : Refines lower (absC (srcCacheAfter lower evs)) (specAfter lower evs) := by rw [ha]; exact h.1
  exact C05_purge_exact_source lower (srcCacheAfter lower evs) hi (specAfter lower evs) hr h.2 now

end Tie

end
end Zc
