import Zc.Props.C11Net
import Zc.Props.C14
/-! # C11 — the format clauses, down to the bytes

`Props/C11.lean` states the format of replies on leaves (`wireId`, `wireClass`, the constructors' arguments).  Here the two
reply constructors of `answers.py` are composed with C01's encoder model `Wire.Encode.packets` (`DNSOutgoing.packets()`), and the
statements are about what the **independent strict RFC 1035 decoder** `Wire.Strict.decode` reads from the emitted bytes:

* unicast reply: every datagram has the query's id (the first packet's), flags 0x8400, the first packet's questions (name, type,
  class — without the QU bit) iff the source port is not 5353 and no questions otherwise, and **no record with the cache-flush bit**;
* multicast reply: every datagram has id 0, flags 0x8400, **no question section**, and the cache-flush bit **exactly on the
  records that are not PTR records** (the records being what the seven constructor sites build: `builtBy`);
* in both, per section, the records decoded from the datagrams are exactly the reply's, in order (however the message splits).

The hypotheses are C01's: entries well-formed (`WFMsg`) and each fitting a datagram alone (`FitAll`); `C11_reply_total` shows the
encoder then returns.  0x8400, 0x8000, 5353, PTR = 12 are the English statement's numbers. -/
namespace Zc.Reply.Net
open Zc Zc.Wire Zc.Wire.Encode

/-- `add_answer_at_time(answer, 0)` stores every answer -/
theorem msg_answers (recOf : RecId → ERecord) (c : Content) : (c.msg recOf).answers = c.answers.map (fun r => (recOf r, 0)) := by
  have key : ∀ (l : List RecId) (acc : List (ERecord × Ms)),
      l.foldl (fun acc r => addAnswerAtTime acc (recOf r) 0) acc = acc ++ l.map (fun r => (recOf r, 0)) := by
    intro l
    induction l with
    | nil => intro acc; simp
    | cons r l ih =>
      intro acc
      simp only [List.foldl_cons, List.map_cons]
      rw [ih]
      simp [addAnswerAtTime, GenFacts.answer_now_zero]
  simpa [Content.msg] using key c.answers []

/-- what C01's round trip gives for a reply `DNSOutgoing` with the response + authoritative flags -/
theorem reply_bytes (recOf : RecId → ERecord) (c : Content) (hflags : c.flags = 0x8400)
    (hwf : WFMsg (c.msg recOf)) (hfit : FitAll (c.msg recOf)) (pks : List Bytes) (h : packets (c.msg recOf) = .ok pks) :
    ∃ msgs : List WMsg, pks.map Strict.decode = msgs.map some ∧ msgs ≠ [] ∧ (∀ p ∈ pks, p.length ≤ 8966) ∧
      (∀ m ∈ msgs, m.id = (if c.multicast then 0 else c.id) ∧ m.flags = 0x8400 ∧ m.authorities = []) ∧
      msgs.flatMap (·.questions) = c.questions.map (EQuestion.onWire c.multicast) ∧
      msgs.flatMap (·.answers) = c.answers.map (fun r => (recOf r).onWire c.multicast 0) ∧
      msgs.flatMap (·.additionals) = c.adds.map (fun r => (recOf r).onWire c.multicast 0) := by
  unfold packets at h
  obtain ⟨msgs, e, ne, s1, s2, s3, s4, hsz, _, hid, hfl⟩ := packetsLoop_spec (c.msg recOf) hwf hfit _ ⟨0, 0, 0, 0⟩ pks
    ⟨Nat.zero_le _, Nat.zero_le _, Nat.zero_le _, Nat.zero_le _⟩ (by simp [remaining]) h
  have hresp : (c.msg recOf).flags &&& 32768 ≠ 0 := by
    show c.flags &&& 32768 ≠ 0
    rw [hflags]; decide
  have hflag := flagsOK_response (c.msg recOf) hresp msgs hfl
  refine ⟨msgs, e, ne, hsz, ?_, ?_, ?_, ?_⟩
  · intro m hm
    refine ⟨hid m hm, by rw [hflag m hm]; exact hflags, ?_⟩
    have : msgs.flatMap (·.authorities) = [] := by simpa [Content.msg] using s3
    rw [List.flatMap_eq_nil_iff] at this
    exact this m hm
  · simpa [Content.msg] using s1
  · rw [msg_answers] at s2
    simpa [Content.msg, List.map_map, Function.comp_def] using s2
  · simpa [Content.msg, List.map_map, Function.comp_def] using s4

/-- a record as the strict decoder reads it from a unicast message: class without the cache-flush bit, TTL as given -/
def plainWire (r : ERecord) : WRecord := ⟨r.name, r.rtype, r.rclass, r.ttl, r.rdata.onWire⟩
/-- … and from a multicast message: the cache-flush bit (0x8000) added to the class iff the record is unique -/
def flushWire (r : ERecord) : WRecord := ⟨r.name, r.rtype, if r.unique then r.rclass + 0x8000 else r.rclass, r.ttl, r.rdata.onWire⟩

theorem onWire_unicast (r : ERecord) : r.onWire false 0 = plainWire r := by
  simp [ERecord.onWire, plainWire, Wire.Encode.wireClass, wireTtl]

theorem onWire_multicast (r : ERecord) : r.onWire true 0 = flushWire r := by
  cases hu : r.unique <;> simp [ERecord.onWire, flushWire, Wire.Encode.wireClass, wireTtl, hu]

/-! ## the unicast reply -/

/-- **Bytes of the unicast reply.**  For the reply `handle_assembled_query` builds for a query whose first packet is `first`,
from source port `port`, with answers `d`: every datagram `DNSOutgoing.packets()` emits is accepted by the strict decoder and
has the first packet's id and flags 0x8400; the question sections of the datagrams together are exactly the first packet's questions
(name, type, class; the QU bit is not echoed) if `port ≠ 5353` and empty otherwise; answers and additionals are the reply's
records in order, **none with the cache-flush bit**, whatever their `unique` flags; there is no authority section. -/
theorem C11_unicast_wire (w : World) (first : Pkt) (port : Nat) (d : Dict)
    (hwf : WFMsg ((ucastContent (w.questions first.dataId) (Gen.Reply.ucast_source port) first.id d.keys (additionalsOf d)).msg w.recOf))
    (hfit : FitAll ((ucastContent (w.questions first.dataId) (Gen.Reply.ucast_source port) first.id d.keys (additionalsOf d)).msg w.recOf))
    (pks : List Bytes)
    (h : packets ((ucastContent (w.questions first.dataId) (Gen.Reply.ucast_source port) first.id d.keys (additionalsOf d)).msg w.recOf) = .ok pks) :
    ∃ msgs : List WMsg, pks.map Strict.decode = msgs.map some ∧ msgs ≠ [] ∧
      (∀ m ∈ msgs, m.id = first.id ∧ m.flags = 0x8400 ∧ m.authorities = [] ∧
        ∀ r ∈ m.answers ++ m.additionals, r.rclass < 0x8000) ∧
      msgs.flatMap (·.questions) =
        (if port ≠ 5353 then (w.questions first.dataId).map (fun q => (⟨q.name, q.qtype, q.qclass⟩ : WQuestion)) else []) ∧
      msgs.flatMap (·.answers) = d.keys.map (fun r => plainWire (w.recOf r)) ∧
      msgs.flatMap (·.additionals) = (additionalsOf d).map (fun r => plainWire (w.recOf r)) := by
  have hc := ucastContent_eq (w.questions first.dataId) (Gen.Reply.ucast_source port) first.id d.keys (additionalsOf d)
  rw [hc] at hwf hfit h
  obtain ⟨msgs, e, ne, _, hall, s1, s2, s4⟩ := reply_bytes w.recOf _ rfl hwf hfit pks h
  simp only [Bool.false_eq_true, if_false, onWire_unicast] at hall s1 s2 s4
  have hus : Gen.Reply.ucast_source (port : Int) = decide (port ≠ 5353) := by
    have := Zc.Reply.GenFacts.ucast_source (port : Int)
    by_cases hp : port = 5353
    · subst hp; simp [Gen.Reply.ucast_source]
    · have h1 : Gen.Reply.ucast_source (port : Int) = true := this.mpr (by omega)
      simp [h1, hp]
  have hcls : ∀ r ∈ d.keys ++ additionalsOf d, (w.recOf r).rclass < 32768 := by
    intro r hr
    rw [List.mem_append] at hr
    rcases hr with hr | hr
    · have := hwf.answers (w.recOf r, 0) (by rw [msg_answers]; exact List.mem_map.mpr ⟨r, hr, rfl⟩)
      exact this.2.2.1
    · have := hwf.additionals (w.recOf r) (by simp only [Content.msg]; exact List.mem_map.mpr ⟨r, hr, rfl⟩)
      exact this.2.2.1
  refine ⟨msgs, e, ne, ?_, ?_, s2, s4⟩
  · intro m hm
    obtain ⟨h1, h2, h3⟩ := hall m hm
    refine ⟨h1, h2, h3, ?_⟩
    intro r hr
    rw [List.mem_append] at hr
    rcases hr with hr | hr
    · have : r ∈ msgs.flatMap (·.answers) := List.mem_flatMap.mpr ⟨m, hm, hr⟩
      rw [s2, List.mem_map] at this
      obtain ⟨x, hx, rfl⟩ := this
      exact hcls x (List.mem_append_left _ hx)
    · have : r ∈ msgs.flatMap (·.additionals) := List.mem_flatMap.mpr ⟨m, hm, hr⟩
      rw [s4, List.mem_map] at this
      obtain ⟨x, hx, rfl⟩ := this
      exact hcls x (List.mem_append_right _ hx)
  · rw [s1, hus]
    by_cases hp : port = 5353
    · simp [hp]
    · simp [hp, EQuestion.onWire, Wire.Encode.wireClass]

/-! ## the multicast reply -/

/-- every record of the reply was built at one of the seven constructor sites of the responder -/
def World.Built (w : World) (rs : List RecId) : Prop := ∀ r ∈ rs, ∃ k ∈ RKind.all, builtBy k (w.recOf r) = true

instance (w : World) (rs : List RecId) : Decidable (w.Built rs) := by unfold World.Built; infer_instance

/-- **Bytes of a multicast reply** (sent at once for a query, or a batch flushed from a queue): every datagram is accepted by
the strict decoder and has **id 0**, flags **0x8400**, **no question section**, no authority section; answers and additionals are the
reply's records in order with the cache-flush bit added exactly to the unique ones — and, the records being the responder's own
(`Built`), a record of a datagram carries the cache-flush bit **iff it is not a PTR record**, its class being IN. -/
theorem C11_mcast_wire (w : World) (d : Dict)
    (hwf : WFMsg ((mcastContent d.keys (additionalsOf d)).msg w.recOf)) (hfit : FitAll ((mcastContent d.keys (additionalsOf d)).msg w.recOf))
    (pks : List Bytes) (h : packets ((mcastContent d.keys (additionalsOf d)).msg w.recOf) = .ok pks) :
    ∃ msgs : List WMsg, pks.map Strict.decode = msgs.map some ∧ msgs ≠ [] ∧
      (∀ m ∈ msgs, m.id = 0 ∧ m.flags = 0x8400 ∧ m.questions = [] ∧ m.authorities = []) ∧
      msgs.flatMap (·.answers) = d.keys.map (fun r => flushWire (w.recOf r)) ∧
      msgs.flatMap (·.additionals) = (additionalsOf d).map (fun r => flushWire (w.recOf r)) ∧
      (w.Built (d.keys ++ additionalsOf d) →
        ∀ m ∈ msgs, ∀ r ∈ m.answers ++ m.additionals, (r.rclass ≥ 0x8000 ↔ r.rtype ≠ 12) ∧ r.rclass % 0x8000 = 1) := by
  have hc := mcastContent_eq d.keys (additionalsOf d)
  rw [hc] at hwf hfit h
  obtain ⟨msgs, e, ne, _, hall, s1, s2, s4⟩ := reply_bytes w.recOf _ rfl hwf hfit pks h
  simp only [if_true, onWire_multicast, List.map_nil] at hall s1 s2 s4
  refine ⟨msgs, e, ne, ?_, s2, s4, ?_⟩
  · intro m hm
    obtain ⟨h1, h2, h3⟩ := hall m hm
    rw [List.flatMap_eq_nil_iff] at s1
    exact ⟨h1, h2, s1 m hm, h3⟩
  · intro hb m hm r hr
    have hsrc : ∃ x ∈ d.keys ++ additionalsOf d, r = flushWire (w.recOf x) := by
      rw [List.mem_append] at hr
      rcases hr with hr | hr
      · have : r ∈ msgs.flatMap (·.answers) := List.mem_flatMap.mpr ⟨m, hm, hr⟩
        rw [s2, List.mem_map] at this
        obtain ⟨x, hx, rfl⟩ := this
        exact ⟨x, List.mem_append_left _ hx, rfl⟩
      · have : r ∈ msgs.flatMap (·.additionals) := List.mem_flatMap.mpr ⟨m, hm, hr⟩
        rw [s4, List.mem_map] at this
        obtain ⟨x, hx, rfl⟩ := this
        exact ⟨x, List.mem_append_right _ hx, rfl⟩
    obtain ⟨x, hx, rfl⟩ := hsrc
    obtain ⟨k, _, hk⟩ := hb x hx
    simp only [builtBy, Bool.and_eq_true, beq_iff_eq] at hk
    obtain ⟨⟨ht, hcl⟩, hu⟩ := hk
    obtain ⟨hun, hcls, _⟩ := C11_unique_iff_not_ptr k
    simp only [flushWire, hu, hcl, hcls, ht]
    cases hku : k.unique
    · have : ¬ k.ctorType ≠ 12 := fun hne => by have := hun.mpr hne; rw [hku] at this; cases this
      simp [this]
    · have : k.ctorType ≠ 12 := hun.mp hku
      simp [this]

/-! ## the encoder returns: the reply exists -/

/-- for a reply inside C01's quantifier (TXT payloads the 16-bit rdlength can carry, 16-bit id) `packets()` returns a non-empty
list of datagrams — nothing is raised while a reply is being sent -/
theorem C11_reply_total (recOf : RecId → ERecord) (c : Content) (hflags : c.flags = 0x8400) (hid : c.id < 65536)
    (hwf : WFMsg (c.msg recOf)) (hfit : FitAll (c.msg recOf)) (ht : TxtOK (c.msg recOf)) :
    ∃ pks, packets (c.msg recOf) = .ok pks ∧ pks ≠ [] :=
  C14_total (c.msg recOf) hwf hfit (by show c.flags < 65536; rw [hflags]; decide) hid ht

/-! ## bytes on the sockets -/

theorem flatMap_sendAll_peer {α : Type} (t : Sock) (ip : Ip) (port : Nat) (fs : FlowScope) (hf : t.v6 = ip.hasColon) (pks : List α) :
    pks.flatMap (sendAll [t] (some ip) port fs) =
      pks.map (fun p =>
        { sock := t.id
          dest := { ip := ip, port := (if port = 0 then 5353 else port), fs := (if t.v6 && !fs.isSome then some (t.flow, t.scope) else fs) }
          packet := p }) := by
  induction pks with
  | nil => rfl
  | cons p ps ih =>
    simp only [List.flatMap_cons, List.map_cons, ih]
    simp [sendAll, sendWith_peer, hf]

theorem flatMap_sendAll_group {α : Type} (ts : List Sock) (pks : List α) :
    pks.flatMap (sendAll ts none Gen.mdnsPort none) =
      pks.flatMap (fun p => ts.map (fun s => { sock := s.id, dest := groupDest s, packet := p })) := by
  rw [GenFacts.mdnsPort_eq]
  induction pks with
  | nil => rfl
  | cons p ps ih =>
    simp only [List.flatMap_cons, sendAll_group]
    rw [ih]
    congr 1
    apply List.map_congr_left
    intro s _
    simp [groupDest]

/-- **The unicast reply on the sockets, byte for byte**: every datagram `packets()` emits leaves, in order, on the receiving socket
and on no other, to the complete source sockaddr -/
theorem C11_unicast_datagrams (w : World) (first : Pkt) (addr port : Nat) (d : Dict) (hfam : w.SameFamily addr)
    (hwf : WFMsg ((ucastContent (w.questions first.dataId) (Gen.Reply.ucast_source port) first.id d.keys (additionalsOf d)).msg w.recOf))
    (hfit : FitAll ((ucastContent (w.questions first.dataId) (Gen.Reply.ucast_source port) first.id d.keys (additionalsOf d)).msg w.recOf))
    (sents : List (Sent Bytes)) (h : unicastBytes w first addr port (Gen.Reply.ucast_source port) d = .ok sents) :
    ∃ pks, packets ((ucastContent (w.questions first.dataId) (Gen.Reply.ucast_source port) first.id d.keys (additionalsOf d)).msg w.recOf) = .ok pks ∧
      sents = pks.map (fun p => { sock := w.rx.id, dest := replyDest w addr port, packet := p }) := by
  unfold unicastBytes at h
  rw [splitAddrs_eq] at h
  simp only [World.src, sendBytes] at h
  cases hp : packets ((ucastContent (w.questions first.dataId) (Gen.Reply.ucast_source port) first.id d.keys (additionalsOf d)).msg w.recOf) with
  | error e => rw [hp] at h; cases h
  | ok pks =>
    rw [hp] at h
    simp only [Except.ok.injEq] at h
    refine ⟨pks, rfl, ?_⟩
    have hc := ucastContent_eq (w.questions first.dataId) (Gen.Reply.ucast_source port) first.id d.keys (additionalsOf d)
    rw [hc] at hwf hfit hp
    obtain ⟨_, _, _, hsz, _⟩ := reply_bytes w.recOf _ rfl hwf hfit pks hp
    rw [← h, asyncSend_one, sendLoop_fits _ _ _ _ _ _ hsz, flatMap_sendAll_peer _ _ _ _ hfam]
    rfl

/-- **A multicast reply on the sockets, byte for byte**: every datagram `packets()` emits is written once on every socket, to the
group address of the socket's family, port 5353 -/
theorem C11_mcast_datagrams (w : World) (d : Dict)
    (hwf : WFMsg ((mcastContent d.keys (additionalsOf d)).msg w.recOf)) (hfit : FitAll ((mcastContent d.keys (additionalsOf d)).msg w.recOf))
    (sents : List (Sent Bytes)) (h : multicastBytes w d = .ok sents) :
    ∃ pks, packets ((mcastContent d.keys (additionalsOf d)).msg w.recOf) = .ok pks ∧
      sents = pks.flatMap (fun p => w.senders.map (fun s => { sock := s.id, dest := groupDest s, packet := p })) := by
  simp only [multicastBytes, sendBytes] at h
  cases hp : packets ((mcastContent d.keys (additionalsOf d)).msg w.recOf) with
  | error e => rw [hp] at h; cases h
  | ok pks =>
    rw [hp] at h
    simp only [Except.ok.injEq] at h
    refine ⟨pks, rfl, ?_⟩
    have hc := mcastContent_eq d.keys (additionalsOf d)
    rw [hc] at hwf hfit hp
    obtain ⟨_, _, _, hsz, _⟩ := reply_bytes w.recOf _ rfl hwf hfit pks hp
    rw [← h, asyncSend_all, sendLoop_fits _ _ _ _ _ _ hsz, flatMap_sendAll_group]

/-! ## every datagram of every block of the host, as bytes -/

/-- a record built at one of the seven sites, as a multicast message shows it: cache-flush bit iff not a PTR record, class IN -/
theorem flushWire_built {k : RKind} {e : ERecord} (hk : builtBy k e = true) :
    ((flushWire e).rclass ≥ 0x8000 ↔ (flushWire e).rtype ≠ 12) ∧ (flushWire e).rclass % 0x8000 = 1 := by
  simp only [builtBy, Bool.and_eq_true, beq_iff_eq] at hk
  obtain ⟨⟨ht, hcl⟩, hu⟩ := hk
  obtain ⟨hun, hcls, _⟩ := C11_unique_iff_not_ptr k
  simp only [flushWire, hu, hcl, hcls, ht]
  cases hku : k.unique
  · have : ¬ k.ctorType ≠ 12 := fun hne => by have := hun.mpr hne; rw [hku] at this; cases this
    simp [this]
  · have : k.ctorType ≠ 12 := hun.mp hku
    simp [this]

/-- per emitted datagram: what the strict decoder reads from it, for any reply content with the response + authoritative flags -/
theorem content_packet (recOf : RecId → ERecord) (c : Content) (hflags : c.flags = 0x8400)
    (hwf : WFMsg (c.msg recOf)) (hfit : FitAll (c.msg recOf)) (pks : List Bytes) (h : packets (c.msg recOf) = .ok pks) :
    ∀ p ∈ pks, ∃ m, Strict.decode p = some m ∧ m.id = (if c.multicast then 0 else c.id) ∧ m.flags = 0x8400 ∧ m.authorities = [] ∧
      (∀ q ∈ m.questions, ∃ x ∈ c.questions, q = x.onWire c.multicast) ∧
      (∀ r ∈ m.answers ++ m.additionals, ∃ x ∈ c.answers ++ c.adds, r = (recOf x).onWire c.multicast 0) := by
  obtain ⟨msgs, e, _, _, hall, s1, s2, s4⟩ := reply_bytes recOf c hflags hwf hfit pks h
  intro p hp
  have hm : Strict.decode p ∈ pks.map Strict.decode := List.mem_map_of_mem hp
  rw [e, List.mem_map] at hm
  obtain ⟨m, hmm, hdec⟩ := hm
  obtain ⟨h1, h2, h3⟩ := hall m hmm
  refine ⟨m, hdec.symm, h1, h2, h3, ?_, ?_⟩
  · intro q hq
    have : q ∈ msgs.flatMap (·.questions) := List.mem_flatMap.mpr ⟨m, hmm, hq⟩
    rw [s1, List.mem_map] at this
    obtain ⟨x, hx, rfl⟩ := this
    exact ⟨x, hx, rfl⟩
  · intro r hr
    rw [List.mem_append] at hr
    rcases hr with hr | hr
    · have : r ∈ msgs.flatMap (·.answers) := List.mem_flatMap.mpr ⟨m, hmm, hr⟩
      rw [s2, List.mem_map] at this
      obtain ⟨x, hx, rfl⟩ := this
      exact ⟨x, List.mem_append_left _ hx, rfl⟩
    · have : r ∈ msgs.flatMap (·.additionals) := List.mem_flatMap.mpr ⟨m, hmm, hr⟩
      rw [s4, List.mem_map] at this
      obtain ⟨x, hx, rfl⟩ := this
      exact ⟨x, List.mem_append_right _ hx, rfl⟩

/-- **Every datagram of every block, as bytes.**  Take any accepted block of the host — a query arriving, a truncated-query timer, a queue
flushing — from any state, on a host with any sockets.  Every datagram written to a socket in that block, encoded by C01's encoder
(however it splits), is accepted by the strict RFC 1035 decoder with flags 0x8400 and no authority section, and

* if it is a multicast message: id 0, **no question section**, and — the records being the responder's own — the cache-flush bit
  **exactly on the records that are not PTR records**;
* otherwise it is **on the receiving socket**, carries the id the model gave the unicast reply (the query's: `C11_unicast_reply`), and **no
  cache-flush / QU bit** on any record or echoed question. -/
theorem C11_block_wire (w : World) {h : Host} {e : Ev} {r : StepOut} {ds : List (Sent Content)}
    (hs : step w h e = .ok (r, ds)) (hq : ∀ p, blockFirst h e = some p → w.QsOK p) :
    ∀ d ∈ ds, WFMsg (d.packet.msg w.recOf) → FitAll (d.packet.msg w.recOf) →
      ∀ pks, packets (d.packet.msg w.recOf) = .ok pks → ∀ p ∈ pks,
        ∃ m, Strict.decode p = some m ∧ m.flags = 0x8400 ∧ m.authorities = [] ∧
          (d.packet.multicast = true → m.id = 0 ∧ m.questions = [] ∧
            (w.Built (d.packet.answers ++ d.packet.adds) → ∀ x ∈ m.answers ++ m.additionals, (x.rclass ≥ 0x8000 ↔ x.rtype ≠ 12))) ∧
          (d.packet.multicast = false → d.sock = w.rx.id ∧ m.id = d.packet.id ∧
            (∀ q ∈ m.questions, q.qclass < 0x8000) ∧ ∀ x ∈ m.answers ++ m.additionals, x.rclass < 0x8000) := by
  obtain ⟨_, rfl⟩ := step_physical w hs hq
  intro d hd hwf hfit pks hp p hpp
  rw [List.mem_flatMap] at hd
  obtain ⟨o, _, hd⟩ := hd
  have hflags : d.packet.flags = 0x8400 := by
    cases o with
    | mcast a b =>
      simp only [realize, List.mem_map] at hd
      obtain ⟨s, _, rfl⟩ := hd; rfl
    | ucast addr port id nq a b =>
      simp only [realize] at hd
      split at hd
      · simp only [List.mem_singleton] at hd; rw [hd]
      · cases hd
  obtain ⟨m, hdec, hid, hfl, hau, hqs, hrs⟩ := content_packet w.recOf d.packet hflags hwf hfit pks hp p hpp
  refine ⟨m, hdec, hfl, hau, ?_, ?_⟩
  · intro hm
    rw [hm] at hid hqs hrs
    have hnoq : d.packet.questions = [] := by
      cases o with
      | mcast a b =>
        simp only [realize, List.mem_map] at hd
        obtain ⟨s, _, rfl⟩ := hd; rfl
      | ucast addr port id nq a b =>
        simp only [realize] at hd
        split at hd
        · simp only [List.mem_singleton] at hd; rw [hd] at hm; simp at hm
        · cases hd
    refine ⟨by simpa using hid, ?_, ?_⟩
    · cases hmq : m.questions with
      | nil => rfl
      | cons q qs =>
        obtain ⟨x, hx, _⟩ := hqs q (by rw [hmq]; simp)
        rw [hnoq] at hx; cases hx
    · intro hb x hx
      obtain ⟨y, hy, rfl⟩ := hrs x hx
      obtain ⟨k, _, hk⟩ := hb y hy
      rw [onWire_multicast]
      exact (flushWire_built hk).1
  · intro hm
    rw [hm] at hid hqs hrs
    refine ⟨?_, by simpa using hid, ?_, ?_⟩
    · cases o with
      | mcast a b =>
        simp only [realize, List.mem_map] at hd
        obtain ⟨s, _, rfl⟩ := hd; simp at hm
      | ucast addr port id nq a b =>
        simp only [realize] at hd
        split at hd
        · simp only [List.mem_singleton] at hd; rw [hd]
        · cases hd
    · intro q hq'
      obtain ⟨x, hx, rfl⟩ := hqs q hq'
      have := hwf.questions x (by simpa [Content.msg] using hx)
      simpa [EQuestion.onWire, Wire.Encode.wireClass] using this.2.2
    · intro x hx
      obtain ⟨y, hy, rfl⟩ := hrs x hx
      rw [onWire_unicast]
      rw [List.mem_append] at hy
      rcases hy with hy | hy
      · have := hwf.answers (w.recOf y, 0) (by rw [msg_answers]; exact List.mem_map.mpr ⟨y, hy, rfl⟩)
        exact this.2.2.1
      · have := hwf.additionals (w.recOf y) (by simp only [Content.msg]; exact List.mem_map.mpr ⟨y, hy, rfl⟩)
        exact this.2.2.1

/-! ## non-vacuity: a host with two services' worth of records answers a legacy query and flushes a batch; the bytes are computed
by C01's encoder and read back by the strict decoder inside the kernel -/
def wType : WName := [[95, 97], [95, 116, 99, 112], [108]]            -- _a._tcp.l
def wInst : WName := [115] :: wType                                   -- s._a._tcp.l
def wHost : WName := [[104], [108]]                                   -- h.l
/-- record 0: the PTR, 1: SRV, 2: TXT, 3: A -/
def wRecs : RecId → ERecord
  | 0 => ⟨wType, 12, 1, false, 4500, 0, .ptr wInst⟩
  | 1 => ⟨wInst, 33, 1, true, 120, 0, .srv 0 0 80 wHost⟩
  | 2 => ⟨wInst, 16, 1, true, 4500, 0, .txt [3, 97, 61, 49]⟩
  | _ => ⟨wHost, 1, 1, true, 120, 0, .addr [10, 0, 0, 1]⟩
def wWorld : World :=
  { exWorld with questions := fun _ => [⟨wType, 12, 1, true⟩], recOf := wRecs }
def wAnswers : Dict := [(0, [1, 2, 3])]
def wFirst : Pkt := { exPkt with id := 0xBEEF }

example : wWorld.Built (wAnswers.keys ++ additionalsOf wAnswers) := by decide
example : WFMsg ((mcastContent wAnswers.keys (additionalsOf wAnswers)).msg wWorld.recOf) := ⟨by decide, by decide, by decide, by decide⟩
example : FitAll ((mcastContent wAnswers.keys (additionalsOf wAnswers)).msg wWorld.recOf) := ⟨by decide, by decide, by decide, by decide⟩
example : WFMsg ((ucastContent (wWorld.questions 1) true 0xBEEF wAnswers.keys (additionalsOf wAnswers)).msg wWorld.recOf) :=
  ⟨by decide, by decide, by decide, by decide⟩
/-- a datagram as the strict decoder sees it, flattened: id, flags, number of questions, then (type, class field) of every question
and record; `[]` if the decoder refuses it -/
def seen (p : Bytes) : List Nat :=
  match Strict.decode p with
  | some m => [m.id, m.flags, m.questions.length] ++ m.questions.flatMap (fun q => [q.qtype, q.qclass])
      ++ (m.answers ++ m.additionals).flatMap (fun r => [r.rtype, r.rclass])
  | none => []
/-- the multicast datagram: id 0, flags 0x8400, no question, the PTR with class 1, the others with 0x8001 -/
example : (packets ((mcastContent wAnswers.keys (additionalsOf wAnswers)).msg wWorld.recOf)).toOption.map (fun pks => pks.map seen) =
    some [[0, 0x8400, 0, 12, 1, 33, 0x8001, 16, 0x8001, 1, 0x8001]] := by decide +kernel
/-- the unicast datagram for source port 40000: the query's id, the question echoed (QU bit cleared), no flush bit anywhere -/
example : (packets ((ucastContent (wWorld.questions 1) (Gen.Reply.ucast_source 40000) 0xBEEF wAnswers.keys (additionalsOf wAnswers)).msg wWorld.recOf)).toOption.map
      (fun pks => pks.map seen) = some [[0xBEEF, 0x8400, 1, 12, 1, 12, 1, 33, 1, 16, 1, 1, 1]] := by decide +kernel
/-- … and from port 5353 (a QU question answered by unicast): no question section -/
example : (packets ((ucastContent (wWorld.questions 1) (Gen.Reply.ucast_source 5353) 0xBEEF wAnswers.keys (additionalsOf wAnswers)).msg wWorld.recOf)).toOption.map
      (fun pks => pks.map seen) = some [[0xBEEF, 0x8400, 0, 12, 1, 33, 1, 16, 1, 1, 1]] := by decide +kernel
/-- on the sockets: the batch is three datagrams with the same bytes, sockets 10, 11, 12 -/
example : (multicastBytes wWorld wAnswers).toOption.map (fun s => s.map (fun x => (x.sock, x.dest.ip))) =
    some [(10, .group4), (11, .group6), (12, .group6)] := by decide +kernel

end Zc.Reply.Net
