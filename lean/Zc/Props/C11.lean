import Zc.Proofs.Response
import Zc.Proofs.ResponseComplete
import Zc.Props.C11Wire
import Zc.Props.C12
import Zc.Proofs.ResponseExact
import Zc.GenFacts.FnReply
/-! # C11 — replies are routed and formatted as RFC 6762 §5.4, §6 and §6.7 require

The decision logic of `_QueryResponse` / `async_response` / `handle_assembled_query` stated outright,
for **every** cache state, clock value, record, source port, question mix and set of earlier
answers (`qr` is an arbitrary accumulated state, so the statements hold for any position of the
question in a query of any length), plus the header/class fields `DNSOutgoing` writes.
5353, 0x8400 and 0x8000 come from the English property / RFC; `GenFacts` ties them to the source. -/
namespace Zc.Reply
open Zc.Reply.GenFacts

/-! ## C11_legacy — source port ≠ 5353 -/

/-- every answer of every question of a legacy query goes into the unicast reply, *and* is multicast
by the ordinary QM rules (C12) -/
theorem C11_legacy (port : Nat) (hport : port ≠ 5353) (probe : Bool) (seen : SeenMap) (now : Int) (nq q0 : Nat)
    (qr : QR) (qu : Bool) (answers : Dict) (r : RecId) (hr : r ∈ answers.keys) :
    let qr' := qr.route (Gen.Reply.ucast_source port) probe seen now nq q0 qu answers
    r ∈ qr'.ucast ∧ (r ∈ qr'.mcastNow ∨ r ∈ qr'.mcastAgg ∨ r ∈ qr'.mcastLast) := by
  have hus : Gen.Reply.ucast_source (port : Int) = true := (GenFacts.ucast_source _).mpr (by omega)
  intro qr'
  simp only [qr', QR.route, hus, GenFacts.route_qu_only, Bool.not_true, Bool.false_and, Bool.false_eq_true, if_false, if_true]
  obtain ⟨u1, _, _, _⟩ := addUcast_sets answers qr r
  obtain ⟨h1, h2, h3, h4⟩ := addMcast_sets probe seen now nq q0 answers (qr.addUcast answers) r
  refine ⟨by rw [h4]; exact u1.mpr (Or.inr hr), ?_⟩
  cases hroute : mcRoute probe (inLastSecond (seen.get r) now) nq q0
  · exact Or.inl (h1.mpr (Or.inr ⟨hr, hroute⟩))
  · exact Or.inr (Or.inr (h2.mpr (Or.inr ⟨hr, hroute⟩)))
  · exact Or.inr (Or.inl (h3.mpr (Or.inr ⟨hr, hroute⟩)))

/-- the unicast reply of `handle_assembled_query` (that the query reaches it is `C11_legacy_gets_reply_partial`): sent in the
block that answers — the arrival block of an untruncated query, the timer block of a held one — to the address the block runs for
and the port it was handed (for a held query the port of the last deferred packet), with the id of the first packet of the query, and
with that packet's questions echoed exactly when the source port is not 5353 (`nquestions` is the size of the echoed question
section).  On which socket and to which complete sockaddr: `C11_unicast_receiving_socket`, `C11_unicast_dest_is_source` (`Props/C11Net`). -/
theorem C11_unicast_reply {h : Host} {clock : Int} {pkts : List Pkt} {addr port : Nat} {seen : SeenMap} {draws : List Int}
    {r : StepOut} {rest : List Int} (hs : h.assemble clock pkts addr port seen draws = .ok (r, rest))
    {qa : QA} (hqa : asyncResponse pkts (Gen.Reply.ucast_source port) seen = some qa) :
    ∃ first, pkts.head? = some first ∧
      (qa.ucast.isEmpty = false →
        Out.ucast addr port first.id (if port ≠ 5353 then first.nq else 0) qa.ucast.keys (additionalsOf qa.ucast) ∈ r.outs) ∧
      (∀ o ∈ r.outs, ∀ a p i e x y, o = Out.ucast a p i e x y →
        a = addr ∧ p = port ∧ i = first.id ∧ e = (if port ≠ 5353 then first.nq else 0) ∧ x = qa.ucast.keys) := by
  obtain ⟨first, hf, ho, _⟩ := assemble_spec hs hqa
  have hecho : Gen.Reply.ans_echo_questions (Gen.Reply.ucast_source (port : Int)) = decide (port ≠ 5353) := by
    rw [GenFacts.ans_echo_questions]
    have := GenFacts.ucast_source (port : Int)
    by_cases hp : port = 5353
    · subst hp; simp [Gen.Reply.ucast_source]
    · have h1 : Gen.Reply.ucast_source (port : Int) = true := this.mpr (by omega)
      simp [h1, hp]
  refine ⟨first, hf, ?_, ?_⟩
  · intro hne; rw [ho]; simp [immediateOuts, hne, hecho]
  · intro o hmem a p i e x y hob
    rw [ho] at hmem
    simp only [immediateOuts, List.mem_append] at hmem
    rcases hmem with hmem | hmem
    · split at hmem
      · cases hmem
      · simp only [List.mem_singleton] at hmem
        rw [hmem, hecho] at hob
        simp only [Out.ucast.injEq] at hob
        obtain ⟨rfl, rfl, rfl, rfl, rfl, _⟩ := hob
        by_cases hp : port = 5353 <;> simp [hp]
    · split at hmem
      · cases hmem
      · simp only [List.mem_singleton, Out.ofMcast] at hmem; rw [hmem] at hob; cases hob

/-! ## C11_qu — QU question from port 5353, not a probe -/

/-- unicast alone when the record was multicast within a quarter of its TTL, multicast at once
(and not unicast) otherwise; never queued -/
theorem C11_qu (seen : SeenMap) (now : Int) (nq q0 : Nat) (qr : QR) (answers : Dict) (r : RecId) (hr : r ∈ answers.keys) :
    let qr' := qr.route (Gen.Reply.ucast_source 5353) false seen now nq q0 true answers
    (withinQuarter (seen.get r) now = true → r ∈ qr'.ucast ∧ (r ∈ qr'.mcastNow → r ∈ qr.mcastNow)) ∧
    (withinQuarter (seen.get r) now = false → r ∈ qr'.mcastNow ∧ (r ∈ qr'.ucast → r ∈ qr.ucast)) ∧
    qr'.mcastAgg = qr.mcastAgg ∧ qr'.mcastLast = qr.mcastLast := by
  have hus : Gen.Reply.ucast_source (5353 : Int) = false := by
    have := (not_congr (GenFacts.ucast_source 5353)).mpr (by simp); simpa using this
  intro qr'
  simp only [qr', QR.route, hus, GenFacts.route_qu_only, Bool.not_false, Bool.true_and, if_true]
  obtain ⟨h1, h2, h3, h4⟩ := addQu_sets false seen now answers qr r
  refine ⟨fun hw => ⟨h1.mpr (Or.inr ⟨hr, Or.inr hw⟩), fun hm => ?_⟩, fun hw => ⟨h2.mpr (Or.inr ⟨hr, hw⟩), fun hu => ?_⟩, h3, h4⟩
  · rcases h2.mp hm with h | ⟨_, h⟩
    · exact h
    · rw [hw] at h; cases h
  · rcases h1.mp hu with h | ⟨_, h | h⟩
    · exact h
    · cases h
    · rw [hw] at h; cases h

/-- "within a quarter of its TTL", spelled out: the cached copy was created less than `250·ttl` ms ago -/
theorem C11_quarter (seen : SeenMap) (now : Int) (r : RecId) :
    withinQuarter (seen.get r) now = true ↔ ∃ s, seen.get r = some s ∧ now < s.created + 250 * (s.ttl : Int) :=
  withinQuarter_iff _ _

/-! ## C11_probe — probes are answered at once -/

/-- QU probe from port 5353: unicast, plus multicast at once iff the record was not recently multicast -/
theorem C11_probe_qu (seen : SeenMap) (now : Int) (nq q0 : Nat) (answers : Dict) (r : RecId) (hr : r ∈ answers.keys) :
    let qr' := ({} : QR).route (Gen.Reply.ucast_source 5353) true seen now nq q0 true answers
    r ∈ qr'.ucast ∧ (r ∈ qr'.mcastNow ↔ withinQuarter (seen.get r) now = false) ∧ qr'.mcastAgg = [] ∧ qr'.mcastLast = [] := by
  have hus : Gen.Reply.ucast_source (5353 : Int) = false := by
    have := (not_congr (GenFacts.ucast_source 5353)).mpr (by simp); simpa using this
  intro qr'
  simp only [qr', QR.route, hus, GenFacts.route_qu_only, Bool.not_false, Bool.true_and, if_true]
  obtain ⟨h1, h2, h3, h4⟩ := addQu_sets true seen now answers {} r
  refine ⟨h1.mpr (Or.inr ⟨hr, Or.inl rfl⟩), ?_, h3, h4⟩
  rw [h2]; simp [hr]

/-- QM probe: multicast at once, never queued -/
theorem C11_probe_qm (us : Bool) (seen : SeenMap) (now : Int) (nq q0 : Nat) (answers : Dict) (r : RecId) (hr : r ∈ answers.keys) :
    let qr' := ({} : QR).route us true seen now nq q0 false answers
    r ∈ qr'.mcastNow ∧ r ∉ qr'.mcastAgg ∧ r ∉ qr'.mcastLast := by
  intro qr'
  have hroute : ∀ k, mcRoute true (inLastSecond (seen.get k) now) nq q0 = .now := fun k => (mcRoute_now _ _ _ _).mpr (Or.inl rfl)
  simp only [qr', QR.route, GenFacts.route_qu_only, Bool.and_false, Bool.false_eq_true, if_false]
  cases us
  · obtain ⟨h1, h2, h3, _⟩ := addMcast_sets true seen now nq q0 answers {} r
    simp only [Bool.false_eq_true, if_false]
    refine ⟨h1.mpr (Or.inr ⟨hr, hroute r⟩), ?_, ?_⟩
    · rw [h3, hroute]; simp
    · rw [h2, hroute]; simp
  · obtain ⟨h1, h2, h3, _⟩ := addMcast_sets true seen now nq q0 answers (({} : QR).addUcast answers) r
    simp only [if_true]
    refine ⟨h1.mpr (Or.inr ⟨hr, hroute r⟩), ?_, ?_⟩
    · rw [h3, hroute]; simp [QR.addUcast]
    · rw [h2, hroute]; simp [QR.addUcast]

/-! ## the same for the whole query: what `async_response` returns

The theorems above speak of one routing step from an arbitrary accumulated state.  Routing never removes anything
(`route_mono`), so each of them lifts to the `QuestionAnswers` returned for a query of any number of packets and questions
(`asyncResponse_lift`): the statements below are about **every** unsuppressed candidate answer (`r ∈ answerSet …`) of
**every** question strategy `it` of **every** packet `p` of the query. -/

/-- legacy source port: every such answer is in the unicast reply and in one of the three multicast sets -/
theorem C11_query_legacy (port : Nat) (hport : port ≠ 5353) {pkts : List Pkt} {seen : SeenMap} {qa : QA}
    (h : asyncResponse pkts (Gen.Reply.ucast_source port) seen = some qa)
    {p : Pkt} (hp : p ∈ pkts) {it : QItem} (hit : it ∈ p.items) (r : RecId) (hr : r ∈ (answerSet (unionKnown pkts) it).keys) :
    r ∈ qa.ucast.keys ∧ (r ∈ qa.mcastNow.keys ∨ r ∈ qa.mcastAgg.keys ∨ r ∈ qa.mcastLast.keys) := by
  obtain ⟨first, last, hf, hl, _⟩ := asyncResponse_eq h
  have hus : Gen.Reply.ucast_source (port : Int) = true := (GenFacts.ucast_source _).mpr (by omega)
  have step : ∀ (inN inA inL : Bool),
      (mcRoute (pkts.any (·.isProbe)) (inLastSecond (seen.get r) last.now) first.nq first.q0type = .now → inN = true → True) →
      (inN = true → mcRoute (pkts.any (·.isProbe)) (inLastSecond (seen.get r) last.now) first.nq first.q0type = .now) →
      (inA = true → mcRoute (pkts.any (·.isProbe)) (inLastSecond (seen.get r) last.now) first.nq first.q0type = .aggregate) →
      (inL = true → mcRoute (pkts.any (·.isProbe)) (inLastSecond (seen.get r) last.now) first.nq first.q0type = .lastSecond) →
      (true = true → r ∈ qa.ucast.keys) ∧ (inN = true → r ∈ qa.mcastNow.keys) ∧ (inA = true → r ∈ qa.mcastAgg.keys) ∧
        (inL = true → r ∈ qa.mcastLast.keys) := by
    intro inN inA inL _ hN hA hL
    apply asyncResponse_lift h hp hit r true inN inA inL
    intro f l qr hf' hl'
    rw [hf] at hf'; rw [hl] at hl'; cases hf'; cases hl'
    simp only [QR.route, hus, GenFacts.route_qu_only, Bool.not_true, Bool.false_and, Bool.false_eq_true, if_false, if_true]
    obtain ⟨u1, _, _, _⟩ := addUcast_sets (answerSet (unionKnown pkts) it) qr r
    obtain ⟨h1, h2, h3, h4⟩ := addMcast_sets (pkts.any (·.isProbe)) seen last.now first.nq first.q0type
      (answerSet (unionKnown pkts) it) (qr.addUcast (answerSet (unionKnown pkts) it)) r
    exact ⟨fun _ => by rw [h4]; exact u1.mpr (Or.inr hr), fun hh => h1.mpr (Or.inr ⟨hr, hN hh⟩),
           fun hh => h3.mpr (Or.inr ⟨hr, hA hh⟩), fun hh => h2.mpr (Or.inr ⟨hr, hL hh⟩)⟩
  cases hroute : mcRoute (pkts.any (·.isProbe)) (inLastSecond (seen.get r) last.now) first.nq first.q0type
  · obtain ⟨a, b, _, _⟩ := step true false false (fun _ _ => trivial) (fun _ => hroute) ((fun hh => nomatch hh)) ((fun hh => nomatch hh))
    exact ⟨a rfl, Or.inl (b rfl)⟩
  · obtain ⟨a, _, _, d⟩ := step false false true (fun _ _ => trivial) ((fun hh => nomatch hh)) ((fun hh => nomatch hh)) (fun _ => hroute)
    exact ⟨a rfl, Or.inr (Or.inr (d rfl))⟩
  · obtain ⟨a, _, c, _⟩ := step false true false (fun _ _ => trivial) ((fun hh => nomatch hh)) (fun _ => hroute) ((fun hh => nomatch hh))
    exact ⟨a rfl, Or.inr (Or.inl (c rfl))⟩

/-- QU question from port 5353 (any query, probe or not): seen within a quarter of the TTL at the arrival of the last packet
⇒ in the unicast reply; not seen ⇒ multicast at once; a probe's answer is unicast in either case -/
theorem C11_query_qu {pkts : List Pkt} {seen : SeenMap} {qa : QA}
    (h : asyncResponse pkts (Gen.Reply.ucast_source 5353) seen = some qa)
    {p : Pkt} (hp : p ∈ pkts) {it : QItem} (hit : it ∈ p.items) (hqu : it.qu = true)
    (r : RecId) (hr : r ∈ (answerSet (unionKnown pkts) it).keys) {last : Pkt} (hl : pkts.getLast? = some last) :
    (withinQuarter (seen.get r) last.now = true → r ∈ qa.ucast.keys) ∧
    (withinQuarter (seen.get r) last.now = false → r ∈ qa.mcastNow.keys) ∧
    (pkts.any (·.isProbe) = true → r ∈ qa.ucast.keys) := by
  have hus : Gen.Reply.ucast_source (5353 : Int) = false := by
    have := (not_congr (GenFacts.ucast_source 5353)).mpr (by simp); simpa using this
  have step : ∀ (inU inN : Bool),
      (inU = true → pkts.any (·.isProbe) = true ∨ withinQuarter (seen.get r) last.now = true) →
      (inN = true → withinQuarter (seen.get r) last.now = false) →
      (inU = true → r ∈ qa.ucast.keys) ∧ (inN = true → r ∈ qa.mcastNow.keys) := by
    intro inU inN hU hN
    obtain ⟨a, b, _, _⟩ := asyncResponse_lift h hp hit r inU inN false false (by
      intro f l qr _ hl'
      rw [hl] at hl'; cases hl'
      simp only [QR.route, hus, hqu, GenFacts.route_qu_only, Bool.not_false, Bool.true_and, if_true]
      obtain ⟨h1, h2, _, _⟩ := addQu_sets (pkts.any (·.isProbe)) seen last.now (answerSet (unionKnown pkts) it) qr r
      exact ⟨fun hh => h1.mpr (Or.inr ⟨hr, hU hh⟩), fun hh => h2.mpr (Or.inr ⟨hr, hN hh⟩), (fun hh => nomatch hh), (fun hh => nomatch hh)⟩)
    exact ⟨a, b⟩
  refine ⟨fun hw => ?_, fun hw => ?_, fun hpr => ?_⟩
  · exact (step true false (fun _ => Or.inr hw) ((fun hh => nomatch hh))).1 rfl
  · exact (step false true ((fun hh => nomatch hh)) (fun _ => hw)).2 rfl
  · exact (step true false (fun _ => Or.inl hpr) ((fun hh => nomatch hh))).1 rfl

/-- a probe (some packet of the query carries an authority section): every answer of a question that is not routed as
"QU from port 5353" — a QM question, or any question from a legacy port — is multicast at once -/
theorem C11_query_probe_mcast (us : Bool) {pkts : List Pkt} {seen : SeenMap} {qa : QA}
    (h : asyncResponse pkts us seen = some qa) (hprobe : pkts.any (·.isProbe) = true)
    {p : Pkt} (hp : p ∈ pkts) {it : QItem} (hit : it ∈ p.items) (hroute : (!us && it.qu) = false)
    (r : RecId) (hr : r ∈ (answerSet (unionKnown pkts) it).keys) : r ∈ qa.mcastNow.keys := by
  obtain ⟨_, b, _, _⟩ := asyncResponse_lift h hp hit r false true false false (by
    intro f l qr _ _
    have hnow : ∀ k, mcRoute (pkts.any (·.isProbe)) (inLastSecond (seen.get k) l.now) f.nq f.q0type = .now :=
      fun k => (mcRoute_now _ _ _ _).mpr (Or.inl hprobe)
    simp only [QR.route, GenFacts.route_qu_only, hroute, Bool.false_eq_true, if_false]
    refine ⟨(fun hh => nomatch hh), fun _ => ?_, (fun hh => nomatch hh), (fun hh => nomatch hh)⟩
    cases us
    · simp only [Bool.false_eq_true, if_false]
      exact (addMcast_sets _ seen l.now f.nq f.q0type _ qr r).1.mpr (Or.inr ⟨hr, hnow r⟩)
    · simp only [if_true]
      exact (addMcast_sets _ seen l.now f.nq f.q0type _ _ r).1.mpr (Or.inr ⟨hr, hnow r⟩))
  exact b rfl

/-! ## whole queries, both directions (second review: the `C11_query_*` theorems above are inclusions) -/

/-- **What a whole query is answered with, exactly** (any number of packets and questions, any mix of QU and QM, any source): the
four sets `async_response` returns contain precisely the unsuppressed candidates the routing rule sends there — nothing else is
unicast, multicast at once, or queued.  `!us && it.qu` is "a QU question from port 5353". -/
theorem C11_query_exact {pkts : List Pkt} {us : Bool} {seen : SeenMap} {qa : QA} (h : asyncResponse pkts us seen = some qa)
    {first last : Pkt} (hf : pkts.head? = some first) (hl : pkts.getLast? = some last) (r : RecId) :
    (r ∈ qa.ucast.keys ↔ ∃ it ∈ pkts.flatMap (·.items), r ∈ (answerSet (unionKnown pkts) it).keys ∧
        (if (!us && it.qu) = true then (pkts.any (·.isProbe) = true ∨ withinQuarter (seen.get r) last.now = true) else us = true)) ∧
    (r ∈ qa.mcastNow.keys ↔ ∃ it ∈ pkts.flatMap (·.items), r ∈ (answerSet (unionKnown pkts) it).keys ∧
        (if (!us && it.qu) = true then withinQuarter (seen.get r) last.now = false
         else mcRoute (pkts.any (·.isProbe)) (inLastSecond (seen.get r) last.now) first.nq first.q0type = .now)) ∧
    (r ∈ qa.mcastAgg.keys ↔ ∃ it ∈ pkts.flatMap (·.items), r ∈ (answerSet (unionKnown pkts) it).keys ∧ (!us && it.qu) = false ∧
        mcRoute (pkts.any (·.isProbe)) (inLastSecond (seen.get r) last.now) first.nq first.q0type = .aggregate) ∧
    (r ∈ qa.mcastLast.keys ↔ ∃ it ∈ pkts.flatMap (·.items), r ∈ (answerSet (unionKnown pkts) it).keys ∧ (!us && it.qu) = false ∧
        mcRoute (pkts.any (·.isProbe)) (inLastSecond (seen.get r) last.now) first.nq first.q0type = .lastSecond) :=
  asyncResponse_exact h hf hl r

/-- **"answered by unicast alone unless …"** for a query from port 5353 all of whose questions are QU: nothing is ever queued; a record
is multicast (at once) only if it was *not* seen within a quarter of its TTL, and unicast only if it was (or the query is a probe);
so for a query that is not a probe no record is both unicast and multicast — the reply to a recently multicast record is the unicast
datagram alone. -/
theorem C11_query_qu_alone {pkts : List Pkt} {seen : SeenMap} {qa : QA}
    (h : asyncResponse pkts (Gen.Reply.ucast_source 5353) seen = some qa)
    (hall : ∀ p ∈ pkts, ∀ it ∈ p.items, it.qu = true) {last : Pkt} (hl : pkts.getLast? = some last) :
    qa.mcastAgg.keys = [] ∧ qa.mcastLast.keys = [] ∧
    (∀ r, r ∈ qa.mcastNow.keys → withinQuarter (seen.get r) last.now = false) ∧
    (∀ r, r ∈ qa.ucast.keys → pkts.any (·.isProbe) = true ∨ withinQuarter (seen.get r) last.now = true) ∧
    (pkts.any (·.isProbe) = false → ∀ r, ¬ (r ∈ qa.ucast.keys ∧ r ∈ qa.mcastNow.keys)) := by
  have hus : Gen.Reply.ucast_source (5353 : Int) = false := by
    have := (not_congr (GenFacts.ucast_source 5353)).mpr (by simp); simpa using this
  rw [hus] at h
  obtain ⟨first, _, hf, _, _⟩ := asyncResponse_eq h
  have hqu : ∀ it ∈ pkts.flatMap (·.items), (!false && it.qu) = true := by
    intro it hit
    obtain ⟨p, hp, hip⟩ := List.mem_flatMap.mp hit
    simp [hall p hp it hip]
  have hN : ∀ r, r ∈ qa.mcastNow.keys → withinQuarter (seen.get r) last.now = false := by
    intro r hr
    obtain ⟨it, hit, _, hc⟩ := (C11_query_exact h hf hl r).2.1.mp hr
    rw [if_pos (hqu it hit)] at hc; exact hc
  have hU : ∀ r, r ∈ qa.ucast.keys → pkts.any (·.isProbe) = true ∨ withinQuarter (seen.get r) last.now = true := by
    intro r hr
    obtain ⟨it, hit, _, hc⟩ := (C11_query_exact h hf hl r).1.mp hr
    rw [if_pos (hqu it hit)] at hc; exact hc
  refine ⟨?_, ?_, hN, hU, ?_⟩
  · rw [List.eq_nil_iff_forall_not_mem]
    intro r hr
    obtain ⟨it, hit, _, hc, _⟩ := (C11_query_exact h hf hl r).2.2.1.mp hr
    rw [hqu it hit] at hc; cases hc
  · rw [List.eq_nil_iff_forall_not_mem]
    intro r hr
    obtain ⟨it, hit, _, hc, _⟩ := (C11_query_exact h hf hl r).2.2.2.mp hr
    rw [hqu it hit] at hc; cases hc
  · intro hnp r ⟨hu, hn⟩
    rcases hU r hu with hp | hw
    · rw [hnp] at hp; cases hp
    · rw [hN r hn] at hw; cases hw

/-- a QU **probe** from port 5353 (all questions QU): every answer is unicast, and it is multicast at once **iff** it was not seen
within a quarter of its TTL ("plus multicast when the record was not recently multicast" — and only then); nothing is queued -/
theorem C11_query_probe_qu_exact {pkts : List Pkt} {seen : SeenMap} {qa : QA}
    (h : asyncResponse pkts (Gen.Reply.ucast_source 5353) seen = some qa) (hprobe : pkts.any (·.isProbe) = true)
    (hall : ∀ p ∈ pkts, ∀ it ∈ p.items, it.qu = true) {last : Pkt} (hl : pkts.getLast? = some last) (r : RecId) :
    (r ∈ qa.ucast.keys ↔ ∃ it ∈ pkts.flatMap (·.items), r ∈ (answerSet (unionKnown pkts) it).keys) ∧
    (r ∈ qa.mcastNow.keys ↔ (∃ it ∈ pkts.flatMap (·.items), r ∈ (answerSet (unionKnown pkts) it).keys) ∧
        withinQuarter (seen.get r) last.now = false) := by
  have hus : Gen.Reply.ucast_source (5353 : Int) = false := by
    have := (not_congr (GenFacts.ucast_source 5353)).mpr (by simp); simpa using this
  rw [hus] at h
  obtain ⟨first, _, hf, _, _⟩ := asyncResponse_eq h
  have hqu : ∀ it ∈ pkts.flatMap (·.items), (!false && it.qu) = true := by
    intro it hit
    obtain ⟨p, hp, hip⟩ := List.mem_flatMap.mp hit
    simp [hall p hp it hip]
  obtain ⟨e1, e2, _, _⟩ := C11_query_exact h hf hl r
  constructor
  · rw [e1]
    constructor
    · rintro ⟨it, hit, hk, _⟩; exact ⟨it, hit, hk⟩
    · rintro ⟨it, hit, hk⟩; exact ⟨it, hit, hk, by rw [if_pos (hqu it hit)]; exact Or.inl hprobe⟩
  · rw [e2]
    constructor
    · rintro ⟨it, hit, hk, hc⟩
      rw [if_pos (hqu it hit)] at hc
      exact ⟨⟨it, hit, hk⟩, hc⟩
    · rintro ⟨⟨it, hit, hk⟩, hc⟩
      exact ⟨it, hit, hk, by rw [if_pos (hqu it hit)]; exact hc⟩

/-- a query from a legacy port: the unicast reply carries exactly the unsuppressed candidates of its questions -/
theorem C11_query_legacy_exact (port : Nat) (hport : port ≠ 5353) {pkts : List Pkt} {seen : SeenMap} {qa : QA}
    (h : asyncResponse pkts (Gen.Reply.ucast_source port) seen = some qa) (r : RecId) :
    r ∈ qa.ucast.keys ↔ ∃ it ∈ pkts.flatMap (·.items), r ∈ (answerSet (unionKnown pkts) it).keys := by
  have hus : Gen.Reply.ucast_source (port : Int) = true := (GenFacts.ucast_source _).mpr (by omega)
  rw [hus] at h
  obtain ⟨first, last, hf, hl, _⟩ := asyncResponse_eq h
  rw [(C11_query_exact h hf hl r).1]
  constructor
  · rintro ⟨it, hit, hk, _⟩; exact ⟨it, hit, hk⟩
  · rintro ⟨it, hit, hk⟩; exact ⟨it, hit, hk, by simp⟩

/-! ## C11_mcast_fmt — what every multicast reply looks like; no flush bit in unicast replies -/

theorem or_flush (class_ : Nat) (hc : class_ < 0x8000) : class_ ||| 0x8000 = class_ + 0x8000 := by
  have h := Nat.two_pow_add_eq_or_of_lt (i := 15) (b := class_) hc 1
  rw [Nat.or_comm]
  simp only [Nat.reducePow, Nat.mul_one] at h
  omega

/-- id 0, response + authoritative flags, cache-flush bit exactly on the unique records, at the level of the leaves `_write_record_class`
/ `packets` use; that a multicast reply has no question section is `C11_mcast_no_questions` (`Props/C11Net`), and the same on the
bytes is `C11_mcast_wire` (`Props/C11Wire`) -/
theorem C11_mcast_fmt (id class_ : Nat) (unique : Bool) (hc : class_ < 0x8000) :
    wireId true id = 0 ∧ replyFlags = 0x8400 ∧
    (wireClass class_ unique true ≥ 0x8000 ↔ unique = true) ∧ wireClass class_ unique true % 0x8000 = class_ := by
  refine ⟨by simp [wireId, GenFacts.out_id_zero], replyFlags_eq, ?_, ?_⟩
  · unfold wireClass
    rw [GenFacts.out_class_flush, GenFacts.out_class_with_flush, GenFacts.out_class_plain]
    cases unique
    · simp; omega
    · simp
      have := or_flush class_ hc
      omega
  · unfold wireClass
    rw [GenFacts.out_class_flush, GenFacts.out_class_with_flush, GenFacts.out_class_plain]
    cases unique
    · simp; omega
    · simp
      have := or_flush class_ hc
      omega

/-- a unicast reply echoes the query id and never carries a cache-flush bit -/
theorem C11_ucast_fmt (id class_ : Nat) (unique : Bool) :
    wireId false id = id ∧ replyFlags = 0x8400 ∧ wireClass class_ unique false = class_ := by
  refine ⟨by simp [wireId, GenFacts.out_id_zero], replyFlags_eq, ?_⟩
  unfold wireClass
  rw [GenFacts.out_class_flush, GenFacts.out_class_plain]
  simp

/-- the two constructors: `construct_outgoing_multicast_answers` builds a multicast `DNSOutgoing` (so `C11_mcast_fmt`
applies to every multicast reply), `construct_outgoing_unicast_answers` a non-multicast one whatever the query id and
source port are — in particular a legacy query with id 0 gets id 0 echoed and still no cache-flush bit -/
theorem C11_reply_constructors (id class_ : Nat) (unique ucastSource : Bool) :
    mcastReplyMulticast = true ∧ ucastReplyMulticast id ucastSource = false ∧
    wireId (ucastReplyMulticast id ucastSource) id = id ∧ wireClass class_ unique (ucastReplyMulticast id ucastSource) = class_ := by
  have h1 : ucastReplyMulticast id ucastSource = false := GenFacts.ans_unicast_multicast_arg _ _
  refine ⟨GenFacts.ans_multicast_multicast_arg, h1, ?_, ?_⟩
  · rw [h1]; exact (C11_ucast_fmt id class_ unique).1
  · rw [h1]; exact (C11_ucast_fmt id class_ unique).2.2

/-- "has a QU question" — what exempts a query from the listener's duplicate suppression, so that a QU question is
answered however the copies of a datagram arrive — is true iff **any** question of the packet has the QU bit, in
whatever position -/
theorem C11_has_qu (qus : List Bool) : hasQuFlag qus = qus.any id := by
  unfold hasQuFlag
  have key : ∀ (l : List Bool) (acc : Bool),
      l.foldl (fun flag u => if Gen.Reply.in_qu_flag_test u then Gen.Reply.in_qu_flag_value u else flag) acc = (acc || l.any id) := by
    intro l
    induction l with
    | nil => intro acc; simp
    | cons u l ih =>
      intro acc
      simp only [List.foldl_cons, List.any_cons, id]
      rw [ih, GenFacts.in_qu_flag_test, GenFacts.in_qu_flag_value]
      cases u <;> cases acc <;> simp
  simpa using key qus false

/-! ## C11_family — address family of destination and socket agree -/

/-- `can_send_to`: a datagram is handed to a socket only when "the address contains a colon" agrees
with "the socket is IPv6" -/
theorem C11_family (ipv6_socket address_has_colon : Bool) :
    Gen.Reply.can_send_to ipv6_socket address_has_colon = true ↔ ipv6_socket = address_has_colon :=
  GenFacts.can_send_to _ _

/-! ## "gets a reply": the receive path in front of `handle_assembled_query`, and the two findings of the second review -/

/-- the duplicate guard of `_process_datagram_at_time` drops this datagram: same bytes as the one the listener saw last, less than
one second ago, and that one was not a query with a QU question -/
def Listener.repeats (l : Listener) (t : Int) (dataId : Nat) : Bool :=
  Gen.Reply.l_duplicate (l.lastData == some dataId) t l.lastTime l.lastMsgQu.isNone (l.lastMsgQu.getD false)

/-- an untruncated query that is neither over-sized nor dropped by the duplicate guard reaches `handle_assembled_query` together with
whatever was deferred for its address -/
theorem decide_plain_query {h : Host} {t : Int} {addr port dataId size : Nat} {hasQu : Bool} {p : Pkt} {seen : SeenMap} {draws : List Int}
    {a : Act} (hd : h.decide (.rx t addr port dataId size hasQu (.query p) seen draws) = .ok a)
    (hsize : size ≤ 8966) (hrep : h.lis.repeats t dataId = false) (htc : p.truncated = false) :
    ∃ lis, a = .answer lis (h.lis.deferredOf addr ++ [p]) addr port := by
  have hov : Gen.Reply.l_oversize (size : Int) = false := by
    cases hh : Gen.Reply.l_oversize (size : Int)
    · rfl
    · simp [Gen.Reply.l_oversize] at hh; omega
  unfold Listener.repeats at hrep
  simp only [Host.decide, hov, hrep, Bool.false_eq_true, if_false] at hd
  split at hd
  · cases hd
  · rw [GenFacts.l_not_truncated, htc] at hd
    simp only [Bool.not_false, if_true, Except.ok.injEq] at hd
    subst hd
    refine ⟨(({ h.lis with lastData := some dataId, lastTime := t, lastMsgQu := some hasQu } : Listener).take (some p) addr).1, ?_⟩
    congr 1

/-- a receive block that answers: for the address and port of the datagram, with the packets deferred for the address and the packet at hand -/
theorem decide_rx_answer {h : Host} {t : Int} {addr port dataId size : Nat} {hasQu : Bool} {p : Pkt} {seen : SeenMap} {draws : List Int}
    {lis : Listener} {pkts : List Pkt} {addr' port' : Nat}
    (hd : h.decide (.rx t addr port dataId size hasQu (.query p) seen draws) = .ok (.answer lis pkts addr' port')) :
    addr' = addr ∧ port' = port ∧ pkts = h.lis.deferredOf addr ++ [p] := by
  simp only [Host.decide] at hd
  repeat' split at hd
  all_goals first
    | (cases hd; done)
    | skip
  cases hd
  exact ⟨rfl, rfl, by rw [take_pkts]; rfl⟩

/-- the clause at full strength: **every** untruncated query from a source port other than 5353 that has an unsuppressed candidate
answer gets a unicast reply to its address and port in its block, whatever the host has seen before -/
def C11_legacy_gets_reply_full : Prop :=
  ∀ (h : Host) (t : Int) (addr port dataId size : Nat) (hasQu : Bool) (p : Pkt) (seen : SeenMap) (draws : List Int) (r : StepOut),
    h.step (.rx t addr port dataId size hasQu (.query p) seen draws) = .ok r → size ≤ 8966 → port ≠ 5353 → p.truncated = false →
    (∃ it ∈ p.items, ∃ c ∈ it.cands, suppresses (unionKnown (h.lis.deferredOf addr ++ [p])) c = false) →
    ∃ id nq a b, Out.ucast addr port id nq a b ∈ r.outs

/-- **What holds (finding D35).**  … provided the duplicate guard does not drop the datagram (`Listener.repeats … = false`: not byte-identical
to the datagram processed last, less than a second ago, that one not a query with a QU question).  The model's listener keeps no "last
source", so this hypothesis is the guard itself and therefore **broader than finding D35**: it excludes the repeat from the *same* sockaddr
(which C16 wants dropped) as well as the repeat from another source (D35: which the property owes a reply); the Lean does not say which of
the two a dropped repeat was — the oracle does (`C11:identical-bytes-other-source-unanswered` only for another `src_full`).  Untruncated
queries only; a truncated one is `C11_truncated_legacy_gets_reply`.  The block is any accepted block (`h.step … = .ok r`: the loop
facts), from any host state; the reply carries the id of the first packet of the query (the deferred ones of this address first) and the
candidate among its answers. -/
theorem C11_legacy_gets_reply_partial (h : Host) (t : Int) (addr port dataId size : Nat) (hasQu : Bool) (p : Pkt) (seen : SeenMap)
    (draws : List Int) (r : StepOut)
    (hs : h.step (.rx t addr port dataId size hasQu (.query p) seen draws) = .ok r) (hsize : size ≤ 8966) (hport : port ≠ 5353)
    (htc : p.truncated = false) (hrep : h.lis.repeats t dataId = false)
    {it : QItem} (hit : it ∈ p.items) {c : Cand} (hc : c ∈ it.cands)
    (hsup : suppresses (unionKnown (h.lis.deferredOf addr ++ [p])) c = false) :
    ∃ first qa, (h.lis.deferredOf addr ++ [p]).head? = some first ∧
      asyncResponse (h.lis.deferredOf addr ++ [p]) (Gen.Reply.ucast_source port) seen = some qa ∧ c.id ∈ qa.ucast.keys ∧
      Out.ucast addr port first.id first.nq qa.ucast.keys (additionalsOf qa.ucast) ∈ r.outs := by
  obtain ⟨a, hd, hp⟩ := step_decide hs
  obtain ⟨lis, rfl⟩ := decide_plain_query hd hsize hrep htc
  obtain ⟨rest, ha⟩ := perform_answer hp
  have hpm : p ∈ h.lis.deferredOf addr ++ [p] := by simp
  obtain ⟨qa, hqa⟩ := asyncResponse_isSome (Gen.Reply.ucast_source port) seen hpm hit
  have hqa' : asyncResponse (h.lis.deferredOf addr ++ [p]) (Gen.Reply.ucast_source port)
      (Ev.rx t addr port dataId size hasQu (.query p) seen draws).seen = some qa := hqa
  obtain ⟨first, hf, ho, _⟩ := assemble_spec ha hqa'
  have hus : Gen.Reply.ucast_source (port : Int) = true := (GenFacts.ucast_source _).mpr (by omega)
  have hkey : c.id ∈ (answerSet (unionKnown (h.lis.deferredOf addr ++ [p])) it).keys := answerSet_has _ _ _ hc hsup
  rw [hus] at hqa
  have hu := (query_legacy_us hqa hpm hit c.id hkey).1
  rw [← hus] at hqa
  refine ⟨first, qa, hf, hqa, hu, ?_⟩
  rw [ho]
  have hne : qa.ucast.isEmpty = false := Dict.isEmpty_false_of_mem hu
  simp [immediateOuts, hne, hus, GenFacts.ans_echo_questions]

/-- the witness of D35: resolver 1 (address id 1, port 40000) asked 10 ms ago; resolver 2 (address id 2, port 40001) sends the same
bytes (datagram id 7) — a single PTR question with a candidate answer — and the host sends nothing -/
def d24Pkt : Pkt := { dataId := 7, now := 1010, id := 0, flags := 0, numAuth := 0, nq := 1, q0type := 12,
                      items := [{ qu := false, cands := [{ id := 5, ttl := 4500, adds := [] }] }], known := [] }
def d24Host : Host := { lis := { lastData := some 7, lastTime := 1000, lastMsgQu := some false } }

theorem C11_legacy_gets_reply_refuted : ¬ C11_legacy_gets_reply_full := by
  intro hfull
  cases hr : d24Host.step (.rx 1010 2 40001 7 60 false (.query d24Pkt) [] []) with
  | error m =>
    have : (d24Host.step (.rx 1010 2 40001 7 60 false (.query d24Pkt) [] [])).toOption.isSome = true := by decide
    rw [hr] at this; cases this
  | ok r =>
    have hout : (d24Host.step (.rx 1010 2 40001 7 60 false (.query d24Pkt) [] [])).toOption.map (·.outs) = some [] := by decide
    rw [hr] at hout
    simp only [Except.toOption, Option.map_some, Option.some.injEq] at hout
    obtain ⟨id, nq, a, b, hm⟩ := hfull d24Host 1010 2 40001 7 60 false d24Pkt [] [] r hr (by decide) (by decide) (by decide)
      ⟨_, List.mem_singleton.mpr rfl, _, List.mem_singleton.mpr rfl, by decide⟩
    rw [hout] at hm; cases hm

/-- … and the guard is what drops it: the witness is a repeat -/
example : d24Host.lis.repeats 1010 7 = true := by decide

/-! ### a QU question is owed its reply, whatever arrived before -/

/-- "the last message had a QU question" is a fact about the stored bytes: if the datagram at hand has the bytes the listener stored
last, the stored flag is this datagram's (`hasQu` is computed from the bytes) -/
def Listener.LastCoherent (l : Listener) (dataId : Nat) (hasQu : Bool) : Prop := l.lastData = some dataId → l.lastMsgQu = some hasQu

instance (l : Listener) (dataId : Nat) (hasQu : Bool) : Decidable (l.LastCoherent dataId hasQu) := by
  unfold Listener.LastCoherent; infer_instance

/-- a query with a QU question is never taken for a repeat -/
theorem qu_never_repeats (l : Listener) (t : Int) (dataId : Nat) (hc : l.LastCoherent dataId true) : l.repeats t dataId = false := by
  unfold Listener.repeats Gen.Reply.l_duplicate
  by_cases hd : l.lastData = some dataId
  · simp [hd, hc hd]
  · have : (l.lastData == some dataId) = false := by simpa using hd
    simp [this]

/-- **A query with a QU question gets its reply, however many copies of the datagram arrive and from wherever** (the duplicate guard exempts
it) — under `LastCoherent` (the flag stored with the last bytes is the flag of those bytes: an invariant of every run whose receive events
take the flag from the bytes, `C11_last_coherent_of_run`), for a datagram within the size limit, untruncated, in an accepted block: it is
answered in its block, by the unicast datagram to its address and port, or — when the record was not multicast within a quarter of its TTL
and the source port is 5353 — by the multicast sent at once. -/
theorem C11_qu_gets_reply (h : Host) (t : Int) (addr port dataId size : Nat) (p : Pkt) (seen : SeenMap) (draws : List Int) (r : StepOut)
    (hs : h.step (.rx t addr port dataId size true (.query p) seen draws) = .ok r) (hsize : size ≤ 8966) (htc : p.truncated = false)
    (hcoh : h.lis.LastCoherent dataId true)
    {it : QItem} (hit : it ∈ p.items) (hqu : it.qu = true) {c : Cand} (hc : c ∈ it.cands)
    (hsup : suppresses (unionKnown (h.lis.deferredOf addr ++ [p])) c = false) :
    ∃ first qa, (h.lis.deferredOf addr ++ [p]).head? = some first ∧
      asyncResponse (h.lis.deferredOf addr ++ [p]) (Gen.Reply.ucast_source port) seen = some qa ∧
      ((c.id ∈ qa.ucast.keys ∧ Out.ucast addr port first.id (if port ≠ 5353 then first.nq else 0) qa.ucast.keys (additionalsOf qa.ucast) ∈ r.outs) ∨
       (c.id ∈ qa.mcastNow.keys ∧ Out.ofMcast qa.mcastNow ∈ r.outs)) := by
  obtain ⟨a, hd, hp⟩ := step_decide hs
  obtain ⟨lis, rfl⟩ := decide_plain_query hd hsize (qu_never_repeats _ _ _ hcoh) htc
  obtain ⟨rest, ha⟩ := perform_answer hp
  have hpm : p ∈ h.lis.deferredOf addr ++ [p] := by simp
  obtain ⟨qa, hqa⟩ := asyncResponse_isSome (Gen.Reply.ucast_source port) seen hpm hit
  have hqa' : asyncResponse (h.lis.deferredOf addr ++ [p]) (Gen.Reply.ucast_source port)
      (Ev.rx t addr port dataId size true (.query p) seen draws).seen = some qa := hqa
  have hkey : c.id ∈ (answerSet (unionKnown (h.lis.deferredOf addr ++ [p])) it).keys := answerSet_has _ _ _ hc hsup
  obtain ⟨first, hf, hu, _⟩ := C11_unicast_reply ha hqa'
  obtain ⟨first', hf', ho, _⟩ := assemble_spec ha hqa'
  have hm : qa.mcastNow.isEmpty = false → Out.ofMcast qa.mcastNow ∈ r.outs := by
    intro hne; rw [ho]; simp [immediateOuts, hne]
  refine ⟨first, qa, hf, hqa, ?_⟩
  by_cases hport : port = 5353
  · subst hport
    have hus : Gen.Reply.ucast_source (5353 : Int) = false := by
      have := (not_congr (GenFacts.ucast_source 5353)).mpr (by simp); simpa using this
    obtain ⟨last, hl⟩ : ∃ last, (h.lis.deferredOf addr ++ [p]).getLast? = some last := ⟨p, by simp⟩
    have hqa0 := hqa
    rw [show ((5353 : Nat) : Int) = (5353 : Int) from rfl, hus] at hqa0
    obtain ⟨q1, q2, _⟩ := query_qu_us hqa0 hpm hit hqu c.id hkey hl
    cases hw : withinQuarter (seen.get c.id) last.now
    · right
      exact ⟨q2 hw, hm (Dict.isEmpty_false_of_mem (q2 hw))⟩
    · left
      exact ⟨q1 hw, hu (Dict.isEmpty_false_of_mem (q1 hw))⟩
  · left
    have hus : Gen.Reply.ucast_source (port : Int) = true := (GenFacts.ucast_source _).mpr (by omega)
    have hqa0 := hqa
    rw [hus] at hqa0
    have hin := (query_legacy_us hqa0 hpm hit c.id hkey).1
    exact ⟨hin, hu (Dict.isEmpty_false_of_mem hin)⟩

example : ({} : Host).lis.LastCoherent 7 true := by decide

/-! ### `LastCoherent` is an invariant of runs whose events take "has a QU question" from the datagram's bytes (third review) -/

/-- the listener's stored flag is what `hasQuOf` says of the stored bytes -/
def Listener.Coherent (hasQuOf : Nat → Bool) (l : Listener) : Prop := ∀ d, l.lastData = some d → l.lastMsgQu = some (hasQuOf d)

/-- the event hands the model the flag of its datagram: "has a QU question" is a function of the bytes (`hasQuFlag` of the question section) -/
def Ev.FlagOfBytes (hasQuOf : Nat → Bool) : Ev → Prop
  | .rx _ _ _ dataId _ hasQu _ _ _ => hasQu = hasQuOf dataId
  | _ => True

theorem assemble_lis {h : Host} {clock : Int} {pkts : List Pkt} {addr port : Nat} {seen : SeenMap} {draws : List Int}
    {r : StepOut} {rest : List Int} (hs : h.assemble clock pkts addr port seen draws = .ok (r, rest)) : r.host.lis = h.lis := by
  unfold Host.assemble at hs
  cases hh : pkts.head? with
  | none => rw [hh] at hs; simp at hs
  | some first =>
    rw [hh] at hs
    cases hqa : asyncResponse pkts (Gen.Reply.ucast_source port) seen with
    | none => simp only [hqa, Except.ok.injEq, Prod.mk.injEq] at hs; rw [← hs.1]
    | some qa => exact (assemble_spec (by unfold Host.assemble; rw [hh]; exact hs) hqa).choose_spec.2.2.1

theorem take_last (l : Listener) (msg : Option Pkt) (a : Nat) :
    (l.take msg a).1.lastData = l.lastData ∧ (l.take msg a).1.lastMsgQu = l.lastMsgQu := ⟨rfl, rfl⟩

theorem defer_last (l : Listener) (t : Int) (a port : Nat) (p : Pkt) (d : Int) :
    (l.defer t a port p d).lastData = l.lastData ∧ (l.defer t a port p d).lastMsgQu = l.lastMsgQu := by
  unfold Listener.defer Listener.cancelTimer Listener.setDeferred
  split <;> exact ⟨rfl, rfl⟩

/-- one accepted block keeps the listener coherent -/
theorem step_coherent (hasQuOf : Nat → Bool) {h : Host} {e : Ev} {r : StepOut} (hs : h.step e = .ok r)
    (he : e.FlagOfBytes hasQuOf) (hc : h.lis.Coherent hasQuOf) : r.host.lis.Coherent hasQuOf := by
  obtain ⟨a, hd, hp⟩ := step_decide hs
  -- the listener the action carries is either the old one or the old one with this datagram's bytes and flag stored
  have key : ∀ lis : Listener, (lis.lastData = h.lis.lastData ∧ lis.lastMsgQu = h.lis.lastMsgQu) ∨
      (∃ d, lis.lastData = some d ∧ lis.lastMsgQu = some (hasQuOf d)) → lis.Coherent hasQuOf := by
    intro lis hl d hd'
    rcases hl with ⟨h1, h2⟩ | ⟨d', h1, h2⟩
    · rw [h2]; exact hc d (h1 ▸ hd')
    · rw [h1] at hd'; cases hd'; exact h2
  cases e with
  | qfire t dl =>
    obtain rfl := decide_qfire hd
    rw [(perform_ready hp).1]; exact hc
  | qremove t dl recs =>
    simp only [Host.decide, Except.ok.injEq] at hd
    subst hd
    rw [(perform_remove hp).2.1]; exact hc
  | tcfire t addr seen draws =>
    simp only [Host.decide] at hd
    split at hd
    · cases hd
    · split at hd
      · cases hd
      · simp only [Except.ok.injEq] at hd
        subst hd
        obtain ⟨rest, ha⟩ := perform_answer hp
        rw [assemble_lis ha]
        exact key _ (Or.inl (take_last h.lis none addr))
  | rx t addr port dataId size hasQu kind seen draws =>
    simp only [Ev.FlagOfBytes] at he
    subst he
    simp only [Host.decide] at hd
    split at hd
    · simp only [Except.ok.injEq] at hd; subst hd
      rw [(perform_idle hp).1]; exact hc
    · split at hd
      · simp only [Except.ok.injEq] at hd; subst hd
        rw [(perform_idle hp).1]; exact hc
      · have hnew : ∀ lis : Listener, (lis.lastData = some dataId ∧ lis.lastMsgQu = some (hasQuOf dataId)) → lis.Coherent hasQuOf :=
          fun lis hl => key lis (Or.inr ⟨dataId, hl.1, hl.2⟩)
        cases kind with
        | invalid =>
          simp only [Except.ok.injEq] at hd; subst hd
          rw [(perform_idle hp).1]; exact hnew _ ⟨rfl, rfl⟩
        | response =>
          simp only [Except.ok.injEq] at hd; subst hd
          rw [(perform_idle hp).1]; exact hnew _ ⟨rfl, rfl⟩
        | query p =>
          simp only at hd
          split at hd
          · cases hd
          · split at hd
            · simp only [Except.ok.injEq] at hd; subst hd
              obtain ⟨rest, ha⟩ := perform_answer hp
              rw [assemble_lis ha]
              exact hnew _ ⟨rfl, rfl⟩
            · split at hd
              · simp only [Except.ok.injEq] at hd; subst hd
                rw [(perform_idle hp).1]; exact hnew _ ⟨rfl, rfl⟩
              · split at hd
                · cases hd
                · split at hd
                  · cases hd
                  · simp only [Except.ok.injEq] at hd; subst hd
                    rw [(perform_defer hp).1]
                    exact hnew _ ⟨(defer_last _ _ _ _ _ _).1, (defer_last _ _ _ _ _ _).2⟩

/-- **`LastCoherent` holds in every state a run reaches** from the initial host, whatever the events, as long as each receive event's
flag is the flag of its bytes — so the hypothesis `hcoh` of `C11_qu_gets_reply` is a fact about runs, not an assumption about states -/
theorem C11_last_coherent_of_run (hasQuOf : Nat → Bool) {h : Host} {c : Int} {evs : List Ev} {h' : Host} {c' : Int} {tr : List (Ev × StepOut)}
    (hr : HRun h c evs h' c' tr) (hev : ∀ e ∈ evs, e.FlagOfBytes hasQuOf) (hc : h.lis.Coherent hasQuOf) :
    h'.lis.Coherent hasQuOf ∧ ∀ x ∈ traceStates h tr, x.1.lis.Coherent hasQuOf := by
  induction hr with
  | nil h c => exact ⟨hc, by intro x hx; cases hx⟩
  | @cons h clock e es r h' c' tr _ hs _ ih =>
    have h1 := step_coherent hasQuOf hs (hev e (by simp)) hc
    obtain ⟨i1, i2⟩ := ih (fun e' he' => hev e' (by simp [he'])) h1
    refine ⟨i1, ?_⟩
    intro x hx
    simp only [traceStates, List.mem_cons] at hx
    rcases hx with rfl | hx
    · exact hc
    · exact i2 x hx

theorem coherent_init (hasQuOf : Nat → Bool) : ({} : Host).lis.Coherent hasQuOf := by intro d hd; cases hd

/-- what `C11_qu_gets_reply` asks of the state, from coherence and the event's own flag -/
theorem lastCoherent_of_coherent {hasQuOf : Nat → Bool} {l : Listener} (hc : l.Coherent hasQuOf) {dataId : Nat} {hasQu : Bool}
    (he : hasQu = hasQuOf dataId) : l.LastCoherent dataId hasQu := by
  intro hd; rw [he]; exact hc dataId hd

/-! ### a truncated legacy query is answered when its hold ends -/

/-- **A truncated query from a source port other than 5353 gets its unicast reply too** — when the hold ends: in the block of the
truncated-query timer of its address (any accepted block, any host state; that exactly one such timer is armed 400–500 ms after the
last distinct packet and fires when due is C12's `C12_tc_hold`, `C12_host_invariant` and the loop facts), the packets held for the
address are answered together and every unsuppressed candidate of every question of every held packet is in the unicast datagram
to the address and the port the last held packet came from (`tm.port`), with the id of the first held packet. -/
theorem C11_truncated_legacy_gets_reply (h : Host) (t : Int) (addr : Nat) (seen : SeenMap) (draws : List Int) (r : StepOut)
    (hs : h.step (.tcfire t addr seen draws) = .ok r)
    {p : Pkt} (hp : p ∈ h.lis.deferredOf addr) {it : QItem} (hit : it ∈ p.items) {c : Cand} (hc : c ∈ it.cands)
    (hsup : suppresses (unionKnown (h.lis.deferredOf addr)) c = false) :
    ∃ tm first qa, h.lis.timers.find? (fun tm => tm.addr == addr) = some tm ∧ tm.due = t ∧
      (h.lis.deferredOf addr).head? = some first ∧
      asyncResponse (h.lis.deferredOf addr) (Gen.Reply.ucast_source tm.port) seen = some qa ∧
      (tm.port ≠ 5353 → c.id ∈ qa.ucast.keys ∧
        Out.ucast addr tm.port first.id first.nq qa.ucast.keys (additionalsOf qa.ucast) ∈ r.outs) := by
  obtain ⟨a, hd, hperf⟩ := step_decide hs
  simp only [Host.decide] at hd
  split at hd
  · cases hd
  · rename_i tm htm
    split at hd
    · cases hd
    · rename_i hdue
      simp only [Except.ok.injEq] at hd
      subst hd
      obtain ⟨rest, ha⟩ := perform_answer hperf
      have hpk : (h.lis.take none addr).2 = h.lis.deferredOf addr := by rw [take_pkts]; simp
      rw [hpk] at ha
      obtain ⟨qa, hqa⟩ := asyncResponse_isSome (Gen.Reply.ucast_source tm.port) seen hp hit
      have hqa' : asyncResponse (h.lis.deferredOf addr) (Gen.Reply.ucast_source tm.port) (Ev.tcfire t addr seen draws).seen = some qa := hqa
      obtain ⟨first, hf, ho, _⟩ := assemble_spec ha hqa'
      refine ⟨tm, first, qa, htm, by simpa using hdue, hf, hqa, ?_⟩
      intro hport
      have hus : Gen.Reply.ucast_source (tm.port : Int) = true := (GenFacts.ucast_source _).mpr (by omega)
      have hkey : c.id ∈ (answerSet (unionKnown (h.lis.deferredOf addr)) it).keys := answerSet_has _ _ _ hc hsup
      have hqa0 := hqa
      rw [hus] at hqa0
      have hu := (query_legacy_us hqa0 hp hit c.id hkey).1
      refine ⟨hu, ?_⟩
      rw [ho]
      have hne : qa.ucast.isEmpty = false := Dict.isEmpty_false_of_mem hu
      simp [immediateOuts, hne, hus, GenFacts.ans_echo_questions]

/-! ### finding D36: deferral is keyed by the address alone -/

/-- every packet deferred for `addr` was received from source port `port` (`srcPort` names, for each datagram, the port it came from) -/
def Listener.DeferredFromPort (l : Listener) (srcPort : Nat → Nat) (addr port : Nat) : Prop :=
  ∀ pk ∈ l.deferredOf addr, srcPort pk.dataId = port

instance (l : Listener) (srcPort : Nat → Nat) (addr port : Nat) : Decidable (l.DeferredFromPort srcPort addr port) := by
  unfold Listener.DeferredFromPort; infer_instance

/-- the clause at full strength: the unicast reply sent to `(addr, port)` echoes the id of a datagram that came from `(addr, port)` —
"a query from … gets a unicast reply to that address and port … echoing the query id" — whatever else the host is holding -/
def C11_reply_own_query_full : Prop :=
  ∀ (srcPort : Nat → Nat) (h : Host) (t : Int) (addr port dataId size : Nat) (hasQu : Bool) (p : Pkt) (seen : SeenMap) (draws : List Int)
    (r : StepOut), h.step (.rx t addr port dataId size hasQu (.query p) seen draws) = .ok r → p.dataId = dataId → srcPort dataId = port →
    ∀ a q id nq x y, Out.ucast a q id nq x y ∈ r.outs →
      ∃ pk ∈ h.lis.deferredOf addr ++ [p], pk.id = id ∧ srcPort pk.dataId = port

/-- **What holds (finding D36).**  … provided every packet held for the address came from the same source port (the listener keys
`_deferred` and `_timers` by the address string alone): then the reply echoes the id of the *first* packet of this querier's train. -/
theorem C11_reply_own_query_partial (srcPort : Nat → Nat) (h : Host) (t : Int) (addr port dataId size : Nat) (hasQu : Bool) (p : Pkt)
    (seen : SeenMap) (draws : List Int) (r : StepOut)
    (hs : h.step (.rx t addr port dataId size hasQu (.query p) seen draws) = .ok r) (hpd : p.dataId = dataId) (hsrc : srcPort dataId = port)
    (hsame : h.lis.DeferredFromPort srcPort addr port) :
    ∀ a q id nq x y, Out.ucast a q id nq x y ∈ r.outs →
      ∃ first, (h.lis.deferredOf addr ++ [p]).head? = some first ∧ first.id = id ∧ srcPort first.dataId = port ∧ a = addr ∧ q = port := by
  intro a q id nq x y hm
  obtain ⟨act, hd, hp⟩ := step_decide hs
  cases act with
  | idle lis => rw [(perform_idle hp).2] at hm; cases hm
  | defer lis d => rw [(perform_defer hp).2] at hm; cases hm
  | ready d => obtain ⟨t', he⟩ := decide_ready hd; cases he
  | remove d recs => rw [(perform_remove hp).1] at hm; cases hm
  | answer lis pkts addr' port' =>
    obtain ⟨rest, ha⟩ := perform_answer hp
    obtain ⟨ha', hp', hk'⟩ := decide_rx_answer hd
    rw [ha', hp', hk'] at ha
    cases hqa : asyncResponse (h.lis.deferredOf addr ++ [p]) (Gen.Reply.ucast_source port) seen with
    | none =>
      have : r.outs = [] := by
        simp only [Host.assemble] at ha
        cases hf : (h.lis.deferredOf addr ++ [p]).head? with
        | none => simp [hf] at ha
        | some f =>
          have hqa' : asyncResponse (h.lis.deferredOf addr ++ [p]) (Gen.Reply.ucast_source port)
              (Ev.rx t addr port dataId size hasQu (.query p) seen draws).seen = none := hqa
          simp only [hf, hqa', Except.ok.injEq, Prod.mk.injEq] at ha
          rw [← ha.1]
      rw [this] at hm; cases hm
    | some qa =>
      have hqa' : asyncResponse (h.lis.deferredOf addr ++ [p]) (Gen.Reply.ucast_source port)
          (Ev.rx t addr port dataId size hasQu (.query p) seen draws).seen = some qa := hqa
      obtain ⟨first, hf, ho, _⟩ := assemble_spec ha hqa'
      rw [ho] at hm
      simp only [immediateOuts, List.mem_append] at hm
      rcases hm with hm | hm
      · split at hm
        · cases hm
        · simp only [List.mem_singleton, Out.ucast.injEq] at hm
          obtain ⟨h1, h2, h3, _⟩ := hm
          refine ⟨first, hf, h3.symm, ?_, h1, h2⟩
          have hmem : first ∈ h.lis.deferredOf addr ++ [p] := List.mem_of_mem_head? hf
          rcases List.mem_append.mp hmem with hm1 | hm1
          · exact hsame first hm1
          · simp only [List.mem_singleton] at hm1; rw [hm1, hpd]; exact hsrc
      · split at hm
        · cases hm
        · simp [Out.ofMcast] at hm

/-- the witness of D36: a truncated packet from port 40000 (datagram 1, id 7) is being held for address 1; the plain query from port
40001 (datagram 2, id 9) is answered — to port 40001 — with id 7 -/
def d25Held : Pkt := { dataId := 1, now := 1000, id := 7, flags := 512, numAuth := 0, nq := 1, q0type := 12,
                       items := [{ qu := false, cands := [{ id := 5, ttl := 4500, adds := [] }] }], known := [] }
def d25Plain : Pkt := { dataId := 2, now := 1100, id := 9, flags := 0, numAuth := 0, nq := 1, q0type := 33,
                        items := [{ qu := false, cands := [{ id := 6, ttl := 120, adds := [] }] }], known := [] }
def d25Host : Host := { lis := { lastData := some 1, lastTime := 1000, lastMsgQu := some false, deferred := [(1, [d25Held])],
                                 timers := [{ addr := 1, due := 1450, port := 40000 }] } }
def d25Src : Nat → Nat := fun d => if d = 1 then 40000 else 40001

def d25Out : Option StepOut := (d25Host.step (.rx 1100 1 40001 2 60 false (.query d25Plain) [] [50])).toOption

theorem C11_reply_own_query_refuted : ¬ C11_reply_own_query_full := by
  intro hfull
  cases hr : d25Host.step (.rx 1100 1 40001 2 60 false (.query d25Plain) [] [50]) with
  | error m => have : (d25Host.step (.rx 1100 1 40001 2 60 false (.query d25Plain) [] [50])).toOption.isSome = true := by decide
               rw [hr] at this; cases this
  | ok r =>
    have hout : (d25Host.step (.rx 1100 1 40001 2 60 false (.query d25Plain) [] [50])).toOption.map (·.outs) =
        some [Out.ucast 1 40001 7 1 [5, 6] []] := by decide
    rw [hr] at hout
    simp only [Except.toOption, Option.map_some, Option.some.injEq] at hout
    obtain ⟨pk, hpk, hid, hsp⟩ := hfull d25Src d25Host 1100 1 40001 2 60 false d25Plain [] [50] r hr rfl (by decide)
      1 40001 7 1 [5, 6] [] (by rw [hout]; simp)
    have : ∀ pk ∈ d25Host.lis.deferredOf 1 ++ [d25Plain], ¬ (pk.id = 7 ∧ d25Src pk.dataId = 40001) := by decide
    exact this pk hpk ⟨hid, hsp⟩

example : ¬ d25Host.lis.DeferredFromPort d25Src 1 40001 := by decide
example : ({} : Host).lis.DeferredFromPort d25Src 1 40001 := by decide

/-! ## the first sentence of the property, end to end: logical routing (above), timing (C12's host runs), sockets (`C11Net`) -/

section EndToEnd
open Zc.Reply.Net

/-- **A legacy query, end to end, on the sockets** ("a query from a source port other than 5353 gets a unicast reply to that address and
port on the receiving socket, echoing the query id …, in addition to the normal multicast").  In any state a run from the initial
state reaches (`HInv`), let a block answer a query (`pkts`, any number of packets and questions) that came from `(addr, port)`, `port ≠ 5353`,
on a host with any sockets.  Then for **every** unsuppressed candidate answer `x` of every question of every packet:

1. in that very block a unicast datagram carrying `x` is written on the receiving socket to the querier's complete sockaddr, with the id
   of the first packet; and
2. `x` is multicast **on every socket** of the host: in the same block, or by a queue's timer callback at most 500 ms (aggregated) /
   1200 ms (seen in the last second) later, in every continuation of the run — or the run ends before that deadline, or `x` was withdrawn meanwhile by an
   `async_remove_answers` block (its service was unregistered: C12's `withdrawnInTrace`). -/
theorem C11_legacy_end_to_end (w : World) {hO hD : List AddRec} {clock : Int} {h : Host} (hI : HInv hO hD clock h)
    {e : Ev} {es : List Ev} {h' : Host} {c' : Int} {r : StepOut} {tr : List (Ev × StepOut)}
    (hr : HRun h clock (e :: es) h' c' ((e, r) :: tr))
    {lis : Listener} {pkts : List Pkt} {addr port : Nat} (hdec : h.decide e = .ok (.answer lis pkts addr port))
    {first : Pkt} (hf : pkts.head? = some first) {qa : QA} (hqa : asyncResponse pkts (Gen.Reply.ucast_source port) e.seen = some qa)
    (hport : port ≠ 5353) (hfam : w.SameFamily addr)
    {p : Pkt} (hp : p ∈ pkts) {it : QItem} (hit : it ∈ p.items) (x : RecId) (hx : x ∈ (answerSet (unionKnown pkts) it).keys) :
    (∃ d ∈ assemble w pkts addr port e.seen, d.sock = w.rx.id ∧ d.packet.multicast = false ∧ d.dest = replyDest w addr port ∧
        d.packet.id = first.id ∧ x ∈ d.packet.answers) ∧
    ((∀ s ∈ w.senders, ∃ d ∈ assemble w pkts addr port e.seen, d.sock = s.id ∧ d.dest = groupDest s ∧ d.packet.multicast = true ∧
        x ∈ d.packet.answers) ∨
     (∃ dl, ∃ blk ∈ tr, ∃ t b, blk.1 = .qfire t dl ∧ x ∈ b.keys ∧ e.time ≤ t ∧ t ≤ e.time + (if dl then 1200 else 500) ∧
        ∀ s ∈ w.senders, ∀ fst, ({ sock := s.id, dest := groupDest s, packet := mcastContent b.keys (additionalsOf b) } : Sent Content) ∈
          blk.2.outs.flatMap (realize w fst)) ∨
     c' ≤ e.time + 1200 ∨
     (∃ dl, withdrawnInTrace dl tr x (e.time + (if dl then 1200 else 500)))) := by
  obtain ⟨hu, hm⟩ := C11_query_legacy port hport hqa hp hit x hx
  have hasm : Assembled h e pkts port first qa := ⟨⟨lis, addr, hdec⟩, hf, hqa⟩
  constructor
  · have hne : qa.ucast.isEmpty = false := Dict.isEmpty_false_of_mem hu
    have hfil := C11_unicast_receiving_socket w hf hqa hne hfam
    have hmem : ∀ d, d ∈ (assemble w pkts addr port e.seen).filter (fun d => !d.packet.multicast) → d ∈ assemble w pkts addr port e.seen :=
      fun d hd => (List.mem_filter.mp hd).1
    rw [hfil] at hmem
    exact ⟨_, hmem _ (List.mem_singleton.mpr rfl), rfl, rfl, rfl, rfl, hu⟩
  · have later : ∀ (dl : Bool), x ∈ (if dl then qa.mcastLast else qa.mcastAgg).keys →
        (∃ dl, ∃ blk ∈ tr, ∃ t b, blk.1 = .qfire t dl ∧ x ∈ b.keys ∧ e.time ≤ t ∧ t ≤ e.time + (if dl then 1200 else 500) ∧
          ∀ s ∈ w.senders, ∀ fst, ({ sock := s.id, dest := groupDest s, packet := mcastContent b.keys (additionalsOf b) } : Sent Content) ∈
            blk.2.outs.flatMap (realize w fst)) ∨ c' ≤ e.time + 1200 ∨ (∃ dl, withdrawnInTrace dl tr x (e.time + (if dl then 1200 else 500))) := by
      intro dl hxl
      rcases C12_host_on_wire dl hI hr hasm hxl with ⟨blk, hblk, t, b, h1, h2, h3, h4, h5⟩ | hend | hw
      · left
        refine ⟨dl, blk, hblk, t, b, h1, h3, h4, h5, ?_⟩
        intro s hs fst
        refine List.mem_flatMap.mpr ⟨_, h2, ?_⟩
        rw [realize_mcast, multicast_eq]
        exact List.mem_map.mpr ⟨s, hs, rfl⟩
      · right; left
        cases dl <;> simp at hend <;> omega
      · right; right; exact ⟨dl, hw⟩
    rcases hm with hnow | hagg | hlast
    · left
      have hne : qa.mcastNow.isEmpty = false := Dict.isEmpty_false_of_mem hnow
      have hfil := C11_mcast_now_every_socket w (addr := addr) hf hqa hne
      intro s hs
      have hin : ({ sock := s.id, dest := { ip := if s.v6 then .group6 else .group4, port := 5353, fs := if s.v6 then some (s.flow, s.scope) else none },
                    packet := mcastContent qa.mcastNow.keys (additionalsOf qa.mcastNow) } : Sent Content) ∈
          (assemble w pkts addr port e.seen).filter (fun d => d.packet.multicast) := by
        rw [hfil]; exact List.mem_map.mpr ⟨s, hs, rfl⟩
      refine ⟨_, (List.mem_filter.mp hin).1, rfl, rfl, mcastContent_multicast _ _, ?_⟩
      rw [mcastContent_eq]; exact hnow
    · right; exact later false (by simpa using hagg)
    · right; exact later true (by simpa using hlast)

end EndToEnd

/-! ## Tie: the source of `_QueryResponse` (`_handlers/query_handler.py`), translated statement by statement on every run

`Zc.GenFn.Reply` is regenerated from the *bodies* of `_QueryResponse.add_qu_question_response`, `add_ucast_question_response`,
`add_mcast_question_response`, `answers`, `_has_mcast_within_one_quarter_ttl`, `_has_mcast_record_in_last_second` and of
`QuestionAnswers.__init__` (`tools/gen_fn.py`, spec `tools/fnspecs/reply.py`); the cache look-up `_get_unique_ignoring_scope` is a
parameter (the model's `SeenMap`).  `GenFacts/FnReply.lean` proves the model's `QR.addQu` / `addUcast` / `addMcast` / `answers` equal to
those bodies under the invariant `QInv` (`_additionals` is a dict and covers the four sets; established by `__init__`, preserved by the
three `add_*`).  **What this transports**: the classification the theorems above reason about (`QR.route`, hence `asyncResponse`'s
fold) is computed by the translated bodies, called in the order `async_response` calls them.  **What it does not**: the loop of
`QueryHandler.async_response` itself, `_answer_question` (the model's `answerSet`) and the listener are hand-written models; and
`answers()` iterates four `set`s — CPython in hash order, the translation in insertion order (spec assumption stated in the generated
docstring): the equation is about the four dicts as the model lists them. -/
section Tie
open Zc.Py Zc.GenFn.Reply _root_.Zc.GenFacts.FnReply

/-- **The model's classification is the translated `_QueryResponse`**: for every list of strategies (QU bit, answers), source kind,
probe flag, clock and cache view, the translated calls never raise (`answers()` finds every record in `_additionals`) and return the
model's four dicts -/
theorem C11_response_is_source {seenFn : Nat → Option Rec} {seen : SeenMap} (hs : SeenRel seenFn seen) (ucastSource : Bool)
    (qs : List Question) (probe : Bool) (now : Int) (its : List (Bool × Dict)) :
    ∃ s' qa, runGen seenFn (its.flatMap (fun it => routeOps ucastSource it.1 it.2)) (QueryResponse.init () qs probe now) = .ok s'
      ∧ s'.answers = .ok qa
      ∧ absA qa = (its.foldl (fun (qr : QR) it => qr.route ucastSource probe seen now qs.length ((qs.head?.map (·.type)).getD 0) it.1 it.2) {}).answers :=
  response_eq hs ucastSource qs probe now its

/-- the two cache tests of the translated code are the model's (`Gen.Dns.is_recent` on the cached copy; one second) -/
theorem C11_cache_tests_source (s : QueryResponse) (r : Nat) {seenFn : Nat → Option Rec} {seen : SeenMap} (hs : SeenRel seenFn seen) :
    s.has_mcast_within_one_quarter_ttl r seenFn = .ok (withinQuarter (seen.get r) s.now)
    ∧ s.has_mcast_record_in_last_second r seenFn = .ok (inLastSecond (seen.get r) s.now) :=
  ⟨within_eq s r hs, last_second_eq s r hs⟩

end Tie

/-! non-vacuity -/
example : hasQuFlag [true, false] = true ∧ hasQuFlag [false, true, false] = true ∧ hasQuFlag [false, false] = false := by decide
example : withinQuarter (SeenMap.get [(5, { created := 1000, ttl := 120 })] 5) 30999 = true := by decide
example : withinQuarter (SeenMap.get [(5, { created := 1000, ttl := 120 })] 5) 31000 = false := by decide
example : (({} : QR).route (Gen.Reply.ucast_source 5353) false [(5, { created := 1000, ttl := 120 })] 31000 1 12 true [(5, [])]).mcastNow = [5] := by decide
example : (({} : QR).route (Gen.Reply.ucast_source 5353) false [(5, { created := 1000, ttl := 120 })] 30999 1 12 true [(5, [])]).ucast = [5] := by decide
example : (({} : QR).route (Gen.Reply.ucast_source 40000) false [] 0 2 12 true [(5, [])]).ucast = [5] := by decide

end Zc.Reply
