import Zc.Proofs.Response
import Zc.Proofs.ResponseComplete
import Zc.Props.C11Wire
import Zc.Props.C12Host
/-! # C11 — replies are routed and formatted as RFC 6762 §5.4, §6 and §6.7 require

The decision logic of `_QueryResponse` / `async_response` / `handle_assembled_query` stated outright,
for **every** cache state, clock value, record, source port, question mix and set of earlier
answers (`qr` is an arbitrary accumulated state, so the statements hold for any position of the
question in a query of any length), plus the header/class fields `DNSOutgoing` writes.
5353, 0x8400 and 0x8000 come from the English property / RFC; `GenFacts` ties them to the source. -/
namespace Zc.Reply
open Zc.Reply.GenFacts

/-! ## C11_legacy — source port ≠ 5353 -/

/-- every answer of every question of a legacy query goes into the unicast reply, *and* is multicast
by the ordinary QM rules (C12) -/
theorem C11_legacy (port : Nat) (hport : port ≠ 5353) (probe : Bool) (seen : SeenMap) (now : Int) (nq q0 : Nat)
    (qr : QR) (qu : Bool) (answers : Dict) (r : RecId) (hr : r ∈ answers.keys) :
    let qr' := qr.route (Gen.Reply.ucast_source port) probe seen now nq q0 qu answers
    r ∈ qr'.ucast ∧ (r ∈ qr'.mcastNow ∨ r ∈ qr'.mcastAgg ∨ r ∈ qr'.mcastLast) := by
  have hus : Gen.Reply.ucast_source (port : Int) = true := (GenFacts.ucast_source _).mpr (by omega)
  intro qr'
  simp only [qr', QR.route, hus, GenFacts.route_qu_only, Bool.not_true, Bool.false_and, Bool.false_eq_true, if_false, if_true]
  obtain ⟨u1, _, _, _⟩ := addUcast_sets answers qr r
  obtain ⟨h1, h2, h3, h4⟩ := addMcast_sets probe seen now nq q0 answers (qr.addUcast answers) r
  refine ⟨by rw [h4]; exact u1.mpr (Or.inr hr), ?_⟩
  cases hroute : mcRoute probe (inLastSecond (seen.get r) now) nq q0
  · exact Or.inl (h1.mpr (Or.inr ⟨hr, hroute⟩))
  · exact Or.inr (Or.inr (h2.mpr (Or.inr ⟨hr, hroute⟩)))
  · exact Or.inr (Or.inl (h3.mpr (Or.inr ⟨hr, hroute⟩)))

/-- the unicast reply: sent in the arrival block to the querier's address and port (on the receiving
transport: `Out.ucast` has no other), with the id of the (first packet of the) query, and with that
packet's questions echoed exactly when the source port is not 5353 (`nquestions` is the size of the
echoed question section) -/
theorem C11_unicast_reply {h : Host} {clock : Int} {pkts : List Pkt} {addr port : Nat} {seen : SeenMap} {draws : List Int}
    {r : StepOut} {rest : List Int} (hs : h.assemble clock pkts addr port seen draws = .ok (r, rest))
    {qa : QA} (hqa : asyncResponse pkts (Gen.Reply.ucast_source port) seen = some qa) :
    ∃ first, pkts.head? = some first ∧
      (qa.ucast.isEmpty = false →
        Out.ucast addr port first.id (if port ≠ 5353 then first.nq else 0) qa.ucast.keys (additionalsOf qa.ucast) ∈ r.outs) ∧
      (∀ o ∈ r.outs, ∀ a p i e x y, o = Out.ucast a p i e x y →
        a = addr ∧ p = port ∧ i = first.id ∧ e = (if port ≠ 5353 then first.nq else 0) ∧ x = qa.ucast.keys) := by
  obtain ⟨first, hf, ho, _⟩ := assemble_spec hs hqa
  have hecho : Gen.Reply.ans_echo_questions (Gen.Reply.ucast_source (port : Int)) = decide (port ≠ 5353) := by
    rw [GenFacts.ans_echo_questions]
    have := GenFacts.ucast_source (port : Int)
    by_cases hp : port = 5353
    · subst hp; simp [Gen.Reply.ucast_source]
    · have h1 : Gen.Reply.ucast_source (port : Int) = true := this.mpr (by omega)
      simp [h1, hp]
  refine ⟨first, hf, ?_, ?_⟩
  · intro hne; rw [ho]; simp [immediateOuts, hne, hecho]
  · intro o hmem a p i e x y hob
    rw [ho] at hmem
    simp only [immediateOuts, List.mem_append] at hmem
    rcases hmem with hmem | hmem
    · split at hmem
      · cases hmem
      · simp only [List.mem_singleton] at hmem
        rw [hmem, hecho] at hob
        simp only [Out.ucast.injEq] at hob
        obtain ⟨rfl, rfl, rfl, rfl, rfl, _⟩ := hob
        by_cases hp : port = 5353 <;> simp [hp]
    · split at hmem
      · cases hmem
      · simp only [List.mem_singleton, Out.ofMcast] at hmem; rw [hmem] at hob; cases hob

/-! ## C11_qu — QU question from port 5353, not a probe -/

/-- unicast alone when the record was multicast within a quarter of its TTL, multicast at once
(and not unicast) otherwise; never queued -/
theorem C11_qu (seen : SeenMap) (now : Int) (nq q0 : Nat) (qr : QR) (answers : Dict) (r : RecId) (hr : r ∈ answers.keys) :
    let qr' := qr.route (Gen.Reply.ucast_source 5353) false seen now nq q0 true answers
    (withinQuarter (seen.get r) now = true → r ∈ qr'.ucast ∧ (r ∈ qr'.mcastNow → r ∈ qr.mcastNow)) ∧
    (withinQuarter (seen.get r) now = false → r ∈ qr'.mcastNow ∧ (r ∈ qr'.ucast → r ∈ qr.ucast)) ∧
    qr'.mcastAgg = qr.mcastAgg ∧ qr'.mcastLast = qr.mcastLast := by
  have hus : Gen.Reply.ucast_source (5353 : Int) = false := by
    have := (not_congr (GenFacts.ucast_source 5353)).mpr (by simp); simpa using this
  intro qr'
  simp only [qr', QR.route, hus, GenFacts.route_qu_only, Bool.not_false, Bool.true_and, if_true]
  obtain ⟨h1, h2, h3, h4⟩ := addQu_sets false seen now answers qr r
  refine ⟨fun hw => ⟨h1.mpr (Or.inr ⟨hr, Or.inr hw⟩), fun hm => ?_⟩, fun hw => ⟨h2.mpr (Or.inr ⟨hr, hw⟩), fun hu => ?_⟩, h3, h4⟩
  · rcases h2.mp hm with h | ⟨_, h⟩
    · exact h
    · rw [hw] at h; cases h
  · rcases h1.mp hu with h | ⟨_, h | h⟩
    · exact h
    · cases h
    · rw [hw] at h; cases h

/-- "within a quarter of its TTL", spelled out: the cached copy was created less than `250·ttl` ms ago -/
theorem C11_quarter (seen : SeenMap) (now : Int) (r : RecId) :
    withinQuarter (seen.get r) now = true ↔ ∃ s, seen.get r = some s ∧ now < s.created + 250 * (s.ttl : Int) :=
  withinQuarter_iff _ _

/-! ## C11_probe — probes are answered at once -/

/-- QU probe from port 5353: unicast, plus multicast at once iff the record was not recently multicast -/
theorem C11_probe_qu (seen : SeenMap) (now : Int) (nq q0 : Nat) (answers : Dict) (r : RecId) (hr : r ∈ answers.keys) :
    let qr' := ({} : QR).route (Gen.Reply.ucast_source 5353) true seen now nq q0 true answers
    r ∈ qr'.ucast ∧ (r ∈ qr'.mcastNow ↔ withinQuarter (seen.get r) now = false) ∧ qr'.mcastAgg = [] ∧ qr'.mcastLast = [] := by
  have hus : Gen.Reply.ucast_source (5353 : Int) = false := by
    have := (not_congr (GenFacts.ucast_source 5353)).mpr (by simp); simpa using this
  intro qr'
  simp only [qr', QR.route, hus, GenFacts.route_qu_only, Bool.not_false, Bool.true_and, if_true]
  obtain ⟨h1, h2, h3, h4⟩ := addQu_sets true seen now answers {} r
  refine ⟨h1.mpr (Or.inr ⟨hr, Or.inl rfl⟩), ?_, h3, h4⟩
  rw [h2]; simp [hr]

/-- QM probe: multicast at once, never queued -/
theorem C11_probe_qm (us : Bool) (seen : SeenMap) (now : Int) (nq q0 : Nat) (answers : Dict) (r : RecId) (hr : r ∈ answers.keys) :
    let qr' := ({} : QR).route us true seen now nq q0 false answers
    r ∈ qr'.mcastNow ∧ r ∉ qr'.mcastAgg ∧ r ∉ qr'.mcastLast := by
  intro qr'
  have hroute : ∀ k, mcRoute true (inLastSecond (seen.get k) now) nq q0 = .now := fun k => (mcRoute_now _ _ _ _).mpr (Or.inl rfl)
  simp only [qr', QR.route, GenFacts.route_qu_only, Bool.and_false, Bool.false_eq_true, if_false]
  cases us
  · obtain ⟨h1, h2, h3, _⟩ := addMcast_sets true seen now nq q0 answers {} r
    simp only [Bool.false_eq_true, if_false]
    refine ⟨h1.mpr (Or.inr ⟨hr, hroute r⟩), ?_, ?_⟩
    · rw [h3, hroute]; simp
    · rw [h2, hroute]; simp
  · obtain ⟨h1, h2, h3, _⟩ := addMcast_sets true seen now nq q0 answers (({} : QR).addUcast answers) r
    simp only [if_true]
    refine ⟨h1.mpr (Or.inr ⟨hr, hroute r⟩), ?_, ?_⟩
    · rw [h3, hroute]; simp [QR.addUcast]
    · rw [h2, hroute]; simp [QR.addUcast]

/-! ## the same for the whole query: what `async_response` returns

The theorems above speak of one routing step from an arbitrary accumulated state.  Routing never removes anything
(`route_mono`), so each of them lifts to the `QuestionAnswers` returned for a query of any number of packets and questions
(`asyncResponse_lift`): the statements below are about **every** unsuppressed candidate answer (`r ∈ answerSet …`) of
**every** question strategy `it` of **every** packet `p` of the query. -/

/-- legacy source port: every such answer is in the unicast reply and in one of the three multicast sets -/
theorem C11_query_legacy (port : Nat) (hport : port ≠ 5353) {pkts : List Pkt} {seen : SeenMap} {qa : QA}
    (h : asyncResponse pkts (Gen.Reply.ucast_source port) seen = some qa)
    {p : Pkt} (hp : p ∈ pkts) {it : QItem} (hit : it ∈ p.items) (r : RecId) (hr : r ∈ (answerSet (unionKnown pkts) it).keys) :
    r ∈ qa.ucast.keys ∧ (r ∈ qa.mcastNow.keys ∨ r ∈ qa.mcastAgg.keys ∨ r ∈ qa.mcastLast.keys) := by
  obtain ⟨first, last, hf, hl, _⟩ := asyncResponse_eq h
  have hus : Gen.Reply.ucast_source (port : Int) = true := (GenFacts.ucast_source _).mpr (by omega)
  have step : ∀ (inN inA inL : Bool),
      (mcRoute (pkts.any (·.isProbe)) (inLastSecond (seen.get r) last.now) first.nq first.q0type = .now → inN = true → True) →
      (inN = true → mcRoute (pkts.any (·.isProbe)) (inLastSecond (seen.get r) last.now) first.nq first.q0type = .now) →
      (inA = true → mcRoute (pkts.any (·.isProbe)) (inLastSecond (seen.get r) last.now) first.nq first.q0type = .aggregate) →
      (inL = true → mcRoute (pkts.any (·.isProbe)) (inLastSecond (seen.get r) last.now) first.nq first.q0type = .lastSecond) →
      (true = true → r ∈ qa.ucast.keys) ∧ (inN = true → r ∈ qa.mcastNow.keys) ∧ (inA = true → r ∈ qa.mcastAgg.keys) ∧
        (inL = true → r ∈ qa.mcastLast.keys) := by
    intro inN inA inL _ hN hA hL
    apply asyncResponse_lift h hp hit r true inN inA inL
    intro f l qr hf' hl'
    rw [hf] at hf'; rw [hl] at hl'; cases hf'; cases hl'
    simp only [QR.route, hus, GenFacts.route_qu_only, Bool.not_true, Bool.false_and, Bool.false_eq_true, if_false, if_true]
    obtain ⟨u1, _, _, _⟩ := addUcast_sets (answerSet (unionKnown pkts) it) qr r
    obtain ⟨h1, h2, h3, h4⟩ := addMcast_sets (pkts.any (·.isProbe)) seen last.now first.nq first.q0type
      (answerSet (unionKnown pkts) it) (qr.addUcast (answerSet (unionKnown pkts) it)) r
    exact ⟨fun _ => by rw [h4]; exact u1.mpr (Or.inr hr), fun hh => h1.mpr (Or.inr ⟨hr, hN hh⟩),
           fun hh => h3.mpr (Or.inr ⟨hr, hA hh⟩), fun hh => h2.mpr (Or.inr ⟨hr, hL hh⟩)⟩
  cases hroute : mcRoute (pkts.any (·.isProbe)) (inLastSecond (seen.get r) last.now) first.nq first.q0type
  · obtain ⟨a, b, _, _⟩ := step true false false (fun _ _ => trivial) (fun _ => hroute) ((fun hh => nomatch hh)) ((fun hh => nomatch hh))
    exact ⟨a rfl, Or.inl (b rfl)⟩
  · obtain ⟨a, _, _, d⟩ := step false false true (fun _ _ => trivial) ((fun hh => nomatch hh)) ((fun hh => nomatch hh)) (fun _ => hroute)
    exact ⟨a rfl, Or.inr (Or.inr (d rfl))⟩
  · obtain ⟨a, _, c, _⟩ := step false true false (fun _ _ => trivial) ((fun hh => nomatch hh)) (fun _ => hroute) ((fun hh => nomatch hh))
    exact ⟨a rfl, Or.inr (Or.inl (c rfl))⟩

/-- QU question from port 5353 (any query, probe or not): seen within a quarter of the TTL at the arrival of the last packet
⇒ in the unicast reply; not seen ⇒ multicast at once; a probe's answer is unicast in either case -/
theorem C11_query_qu {pkts : List Pkt} {seen : SeenMap} {qa : QA}
    (h : asyncResponse pkts (Gen.Reply.ucast_source 5353) seen = some qa)
    {p : Pkt} (hp : p ∈ pkts) {it : QItem} (hit : it ∈ p.items) (hqu : it.qu = true)
    (r : RecId) (hr : r ∈ (answerSet (unionKnown pkts) it).keys) {last : Pkt} (hl : pkts.getLast? = some last) :
    (withinQuarter (seen.get r) last.now = true → r ∈ qa.ucast.keys) ∧
    (withinQuarter (seen.get r) last.now = false → r ∈ qa.mcastNow.keys) ∧
    (pkts.any (·.isProbe) = true → r ∈ qa.ucast.keys) := by
  have hus : Gen.Reply.ucast_source (5353 : Int) = false := by
    have := (not_congr (GenFacts.ucast_source 5353)).mpr (by simp); simpa using this
  have step : ∀ (inU inN : Bool),
      (inU = true → pkts.any (·.isProbe) = true ∨ withinQuarter (seen.get r) last.now = true) →
      (inN = true → withinQuarter (seen.get r) last.now = false) →
      (inU = true → r ∈ qa.ucast.keys) ∧ (inN = true → r ∈ qa.mcastNow.keys) := by
    intro inU inN hU hN
    obtain ⟨a, b, _, _⟩ := asyncResponse_lift h hp hit r inU inN false false (by
      intro f l qr _ hl'
      rw [hl] at hl'; cases hl'
      simp only [QR.route, hus, hqu, GenFacts.route_qu_only, Bool.not_false, Bool.true_and, if_true]
      obtain ⟨h1, h2, _, _⟩ := addQu_sets (pkts.any (·.isProbe)) seen last.now (answerSet (unionKnown pkts) it) qr r
      exact ⟨fun hh => h1.mpr (Or.inr ⟨hr, hU hh⟩), fun hh => h2.mpr (Or.inr ⟨hr, hN hh⟩), (fun hh => nomatch hh), (fun hh => nomatch hh)⟩)
    exact ⟨a, b⟩
  refine ⟨fun hw => ?_, fun hw => ?_, fun hpr => ?_⟩
  · exact (step true false (fun _ => Or.inr hw) ((fun hh => nomatch hh))).1 rfl
  · exact (step false true ((fun hh => nomatch hh)) (fun _ => hw)).2 rfl
  · exact (step true false (fun _ => Or.inl hpr) ((fun hh => nomatch hh))).1 rfl

/-- a probe (some packet of the query carries an authority section): every answer of a question that is not routed as
"QU from port 5353" — a QM question, or any question from a legacy port — is multicast at once -/
theorem C11_query_probe_mcast (us : Bool) {pkts : List Pkt} {seen : SeenMap} {qa : QA}
    (h : asyncResponse pkts us seen = some qa) (hprobe : pkts.any (·.isProbe) = true)
    {p : Pkt} (hp : p ∈ pkts) {it : QItem} (hit : it ∈ p.items) (hroute : (!us && it.qu) = false)
    (r : RecId) (hr : r ∈ (answerSet (unionKnown pkts) it).keys) : r ∈ qa.mcastNow.keys := by
  obtain ⟨_, b, _, _⟩ := asyncResponse_lift h hp hit r false true false false (by
    intro f l qr _ _
    have hnow : ∀ k, mcRoute (pkts.any (·.isProbe)) (inLastSecond (seen.get k) l.now) f.nq f.q0type = .now :=
      fun k => (mcRoute_now _ _ _ _).mpr (Or.inl hprobe)
    simp only [QR.route, GenFacts.route_qu_only, hroute, Bool.false_eq_true, if_false]
    refine ⟨(fun hh => nomatch hh), fun _ => ?_, (fun hh => nomatch hh), (fun hh => nomatch hh)⟩
    cases us
    · simp only [Bool.false_eq_true, if_false]
      exact (addMcast_sets _ seen l.now f.nq f.q0type _ qr r).1.mpr (Or.inr ⟨hr, hnow r⟩)
    · simp only [if_true]
      exact (addMcast_sets _ seen l.now f.nq f.q0type _ _ r).1.mpr (Or.inr ⟨hr, hnow r⟩))
  exact b rfl

/-! ## C11_mcast_fmt — what every multicast reply looks like; no flush bit in unicast replies -/

theorem or_flush (class_ : Nat) (hc : class_ < 0x8000) : class_ ||| 0x8000 = class_ + 0x8000 := by
  have h := Nat.two_pow_add_eq_or_of_lt (i := 15) (b := class_) hc 1
  rw [Nat.or_comm]
  simp only [Nat.reducePow, Nat.mul_one] at h
  omega

/-- id 0, response + authoritative flags, cache-flush bit exactly on the unique records (the model's
`Out.mcast` has no question section: `construct_outgoing_multicast_answers` adds none) -/
theorem C11_mcast_fmt (id class_ : Nat) (unique : Bool) (hc : class_ < 0x8000) :
    wireId true id = 0 ∧ replyFlags = 0x8400 ∧
    (wireClass class_ unique true ≥ 0x8000 ↔ unique = true) ∧ wireClass class_ unique true % 0x8000 = class_ := by
  refine ⟨by simp [wireId, GenFacts.out_id_zero], replyFlags_eq, ?_, ?_⟩
  · unfold wireClass
    rw [GenFacts.out_class_flush, GenFacts.out_class_with_flush, GenFacts.out_class_plain]
    cases unique
    · simp; omega
    · simp
      have := or_flush class_ hc
      omega
  · unfold wireClass
    rw [GenFacts.out_class_flush, GenFacts.out_class_with_flush, GenFacts.out_class_plain]
    cases unique
    · simp; omega
    · simp
      have := or_flush class_ hc
      omega

/-- a unicast reply echoes the query id and never carries a cache-flush bit -/
theorem C11_ucast_fmt (id class_ : Nat) (unique : Bool) :
    wireId false id = id ∧ replyFlags = 0x8400 ∧ wireClass class_ unique false = class_ := by
  refine ⟨by simp [wireId, GenFacts.out_id_zero], replyFlags_eq, ?_⟩
  unfold wireClass
  rw [GenFacts.out_class_flush, GenFacts.out_class_plain]
  simp

/-- the two constructors: `construct_outgoing_multicast_answers` builds a multicast `DNSOutgoing` (so `C11_mcast_fmt`
applies to every multicast reply), `construct_outgoing_unicast_answers` a non-multicast one whatever the query id and
source port are — in particular a legacy query with id 0 gets id 0 echoed and still no cache-flush bit -/
theorem C11_reply_constructors (id class_ : Nat) (unique ucastSource : Bool) :
    mcastReplyMulticast = true ∧ ucastReplyMulticast id ucastSource = false ∧
    wireId (ucastReplyMulticast id ucastSource) id = id ∧ wireClass class_ unique (ucastReplyMulticast id ucastSource) = class_ := by
  have h1 : ucastReplyMulticast id ucastSource = false := GenFacts.ans_unicast_multicast_arg _ _
  refine ⟨GenFacts.ans_multicast_multicast_arg, h1, ?_, ?_⟩
  · rw [h1]; exact (C11_ucast_fmt id class_ unique).1
  · rw [h1]; exact (C11_ucast_fmt id class_ unique).2.2

/-- "has a QU question" — what exempts a query from the listener's duplicate suppression, so that a QU question is
answered however the copies of a datagram arrive — is true iff **any** question of the packet has the QU bit, in
whatever position -/
theorem C11_has_qu (qus : List Bool) : hasQuFlag qus = qus.any id := by
  unfold hasQuFlag
  have key : ∀ (l : List Bool) (acc : Bool),
      l.foldl (fun flag u => if Gen.Reply.in_qu_flag_test u then Gen.Reply.in_qu_flag_value u else flag) acc = (acc || l.any id) := by
    intro l
    induction l with
    | nil => intro acc; simp
    | cons u l ih =>
      intro acc
      simp only [List.foldl_cons, List.any_cons, id]
      rw [ih, GenFacts.in_qu_flag_test, GenFacts.in_qu_flag_value]
      cases u <;> cases acc <;> simp
  simpa using key qus false

/-! ## C11_family — address family of destination and socket agree -/

/-- `can_send_to`: a datagram is handed to a socket only when "the address contains a colon" agrees
with "the socket is IPv6" -/
theorem C11_family (ipv6_socket address_has_colon : Bool) :
    Gen.Reply.can_send_to ipv6_socket address_has_colon = true ↔ ipv6_socket = address_has_colon :=
  GenFacts.can_send_to _ _

/-! ## the first sentence of the property, end to end: logical routing (above), timing (C12's host runs), sockets (`C11Net`) -/

section EndToEnd
open Zc.Reply.Net

/-- **A legacy query, end to end, on the sockets** ("a query from a source port other than 5353 gets a unicast reply to that address and
port on the receiving socket, echoing the query id …, in addition to the normal multicast").  In any state a run from the initial
state reaches (`HInv`), let a block answer a query (`pkts`, any number of packets and questions) that came from `(addr, port)`, `port ≠ 5353`,
on a host with any sockets.  Then for **every** unsuppressed candidate answer `x` of every question of every packet:

1. in that very block a unicast datagram carrying `x` is written on the receiving socket to the querier's complete sockaddr, with the id
   of the first packet; and
2. `x` is multicast **on every socket** of the host: in the same block, or by a queue's timer callback at most 500 ms (aggregated) /
   1200 ms (seen in the last second) later, in every continuation of the run — or the run ends before that deadline. -/
theorem C11_legacy_end_to_end (w : World) {hO hD : List AddRec} {clock : Int} {h : Host} (hI : HInv hO hD clock h)
    {e : Ev} {es : List Ev} {h' : Host} {c' : Int} {r : StepOut} {tr : List (Ev × StepOut)}
    (hr : HRun h clock (e :: es) h' c' ((e, r) :: tr))
    {lis : Listener} {pkts : List Pkt} {addr port : Nat} (hdec : h.decide e = .ok (.answer lis pkts addr port))
    {first : Pkt} (hf : pkts.head? = some first) {qa : QA} (hqa : asyncResponse pkts (Gen.Reply.ucast_source port) e.seen = some qa)
    (hport : port ≠ 5353) (hfam : w.SameFamily addr)
    {p : Pkt} (hp : p ∈ pkts) {it : QItem} (hit : it ∈ p.items) (x : RecId) (hx : x ∈ (answerSet (unionKnown pkts) it).keys) :
    (∃ d ∈ assemble w pkts addr port e.seen, d.sock = w.rx.id ∧ d.packet.multicast = false ∧ d.dest = replyDest w addr port ∧
        d.packet.id = first.id ∧ x ∈ d.packet.answers) ∧
    ((∀ s ∈ w.senders, ∃ d ∈ assemble w pkts addr port e.seen, d.sock = s.id ∧ d.dest = groupDest s ∧ d.packet.multicast = true ∧
        x ∈ d.packet.answers) ∨
     (∃ dl, ∃ blk ∈ tr, ∃ t b, blk.1 = .qfire t dl ∧ x ∈ b.keys ∧ e.time ≤ t ∧ t ≤ e.time + (if dl then 1200 else 500) ∧
        ∀ s ∈ w.senders, ∀ fst, ({ sock := s.id, dest := groupDest s, packet := mcastContent b.keys (additionalsOf b) } : Sent Content) ∈
          blk.2.outs.flatMap (realize w fst)) ∨
     c' ≤ e.time + 1200) := by
  obtain ⟨hu, hm⟩ := C11_query_legacy port hport hqa hp hit x hx
  have hasm : Assembled h e pkts port first qa := ⟨⟨lis, addr, hdec⟩, hf, hqa⟩
  constructor
  · have hne : qa.ucast.isEmpty = false := Dict.isEmpty_false_of_mem hu
    have hfil := C11_unicast_receiving_socket w hf hqa hne hfam
    have hmem : ∀ d, d ∈ (assemble w pkts addr port e.seen).filter (fun d => !d.packet.multicast) → d ∈ assemble w pkts addr port e.seen :=
      fun d hd => (List.mem_filter.mp hd).1
    rw [hfil] at hmem
    exact ⟨_, hmem _ (List.mem_singleton.mpr rfl), rfl, rfl, rfl, rfl, hu⟩
  · have later : ∀ (dl : Bool), x ∈ (if dl then qa.mcastLast else qa.mcastAgg).keys →
        (∃ dl, ∃ blk ∈ tr, ∃ t b, blk.1 = .qfire t dl ∧ x ∈ b.keys ∧ e.time ≤ t ∧ t ≤ e.time + (if dl then 1200 else 500) ∧
          ∀ s ∈ w.senders, ∀ fst, ({ sock := s.id, dest := groupDest s, packet := mcastContent b.keys (additionalsOf b) } : Sent Content) ∈
            blk.2.outs.flatMap (realize w fst)) ∨ c' ≤ e.time + 1200 := by
      intro dl hxl
      rcases C12_host_on_wire dl hI hr hasm hxl with ⟨blk, hblk, t, b, h1, h2, h3, h4, h5⟩ | hend
      · left
        refine ⟨dl, blk, hblk, t, b, h1, h3, h4, h5, ?_⟩
        intro s hs fst
        refine List.mem_flatMap.mpr ⟨_, h2, ?_⟩
        rw [realize_mcast, multicast_eq]
        exact List.mem_map.mpr ⟨s, hs, rfl⟩
      · right
        cases dl <;> simp at hend <;> omega
    rcases hm with hnow | hagg | hlast
    · left
      have hne : qa.mcastNow.isEmpty = false := Dict.isEmpty_false_of_mem hnow
      have hfil := C11_mcast_now_every_socket w (addr := addr) hf hqa hne
      intro s hs
      have hin : ({ sock := s.id, dest := { ip := if s.v6 then .group6 else .group4, port := 5353, fs := if s.v6 then some (s.flow, s.scope) else none },
                    packet := mcastContent qa.mcastNow.keys (additionalsOf qa.mcastNow) } : Sent Content) ∈
          (assemble w pkts addr port e.seen).filter (fun d => d.packet.multicast) := by
        rw [hfil]; exact List.mem_map.mpr ⟨s, hs, rfl⟩
      refine ⟨_, (List.mem_filter.mp hin).1, rfl, rfl, mcastContent_multicast _ _, ?_⟩
      rw [mcastContent_eq]; exact hnow
    · right; exact later false (by simpa using hagg)
    · right; exact later true (by simpa using hlast)

end EndToEnd

/-! non-vacuity -/
example : hasQuFlag [true, false] = true ∧ hasQuFlag [false, true, false] = true ∧ hasQuFlag [false, false] = false := by decide
example : withinQuarter (SeenMap.get [(5, { created := 1000, ttl := 120 })] 5) 30999 = true := by decide
example : withinQuarter (SeenMap.get [(5, { created := 1000, ttl := 120 })] 5) 31000 = false := by decide
example : (({} : QR).route (Gen.Reply.ucast_source 5353) false [(5, { created := 1000, ttl := 120 })] 31000 1 12 true [(5, [])]).mcastNow = [5] := by decide
example : (({} : QR).route (Gen.Reply.ucast_source 5353) false [(5, { created := 1000, ttl := 120 })] 30999 1 12 true [(5, [])]).ucast = [5] := by decide
example : (({} : QR).route (Gen.Reply.ucast_source 40000) false [] 0 2 12 true [(5, [])]).ucast = [5] := by decide

end Zc.Reply
