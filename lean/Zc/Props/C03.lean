import Zc.Proofs.History
import Zc.Proofs.Packetize
import Zc.Proofs.Transmit
import Zc.Proofs.RespScope
import Zc.GenFacts.FnRegistry
import Zc.GenFacts.FnResponderRun
/-! # C03 — the responder answers exactly what is registered, minus what the querier knows

Model: `Zc.Registry` (`_services/registry.py`, with the D3 repair), `Zc.Svc` (the record builders and memo
slots of `_services/info.py`), `Zc.respond` (`QueryHandler.async_response`: strategies, answers, known-answer
suppression) and `Zc.packetize` (`answers.py:_add_answers_additionals`).  The statements are phrased with the
executable predicates of `Zc.RespSpec` — the property's sentence — which the check also evaluates on the
implementation's replies.  `lower` is `str.lower` (arbitrary); `ettl` is the TTL the responder puts on
type-enumeration pointers (`_DNS_OTHER_TTL`; the property does not fix it).

Readings (see `notes/agents/C03.md`): the enumeration meta-query is a PTR question; a record the querier lists
several times with contradictory TTLs must be withheld when *every* listing exceeds half the TTL and must be
offered when *none* does (`supAll` / `supAny`; they coincide for consistent lists, `C03_known_consistent`);
NSEC answers are outside the known-answer clause; an attribute write on a registered `ServiceInfo` takes
effect at the next `async_update` (`dirty`). -/
namespace Zc

variable (lower : String → String) (ettl : Nat)

/-! ## registry: refinement, exceptions, no empty bucket -/

/-- For every history of register / update / unregister / attribute-write / query operations the registry's
three indexes stay mutually consistent (`IndexInv`: unique keys, each index is exactly the family of non-empty
classes of the services under `type.lower()` resp. `server_key`, `has_entries` is right) and the registered
services are exactly those of the abstract finite map `RegSpec`. -/
theorem C03_registry_refines (ops : List RegOp) :
    IndexInv lower (Registry.run lower ettl ops)
    ∧ (Registry.run lower ettl ops).services.map Svc.clearMemo = RegSpec.run lower ops :=
  ⟨(run_spec lower ettl ops).inv, (run_spec lower ettl ops).refines⟩

/-- After any history, any further operation **on `ServiceInfo` objects that have a server** returns normally — except
`register` of a name that is registered, which raises `ServiceNameAlreadyRegistered` and changes nothing.  (No
`KeyError`/`ValueError` from the index bookkeeping, whatever the history.)  The quantifier is the model's: `Svc.server : String`,
i.e. what `set_server_if_missing` guarantees on the `async_register_service` / `async_unregister_service` paths.  `_add`'s
`assert info.server_key is not None` is a raise site *outside* this model: `async_update_service` does not call
`set_server_if_missing`, and `registry.async_update` with a server-less info raises `AssertionError` after `_remove` has dropped
the registered service (finding D26, reproduced and driven on the simulated host by the harness). -/
theorem C03_only_already_registered (ops : List RegOp) (op : RegOp) :
    (∃ r, (Registry.run lower ettl ops).stepE lower ettl op = .ok r)
    ∨ (∃ s, op = .register s ∧ (∃ o ∈ RegSpec.run lower ops, lower o.name = lower s.name)
        ∧ (Registry.run lower ettl ops).stepE lower ettl op = .error .alreadyRegistered
        ∧ (Registry.run lower ettl ops).step lower ettl op = Registry.run lower ettl ops) := by
  have h := run_spec lower ettl ops
  rcases (step_spec lower ettl h op).1 with h1 | ⟨s, h1, h2, h3⟩
  · exact Or.inl h1
  · refine Or.inr ⟨s, h1, ?_, h3, by simp [Registry.step, h3]⟩
    rw [sget_isSome_iff, List.any_eq_true] at h2
    obtain ⟨o, ho, hk⟩ := h2
    have hk' : lower o.name = lower s.name := by simpa using hk
    exact ⟨o.clearMemo, by rw [← h.refines]; exact List.mem_map.mpr ⟨o, ho, rfl⟩, hk'⟩

/-- D3: no empty bucket is ever advertised — every type the registry enumerates, and every host it indexes,
has a currently registered service. -/
theorem C03_no_empty_bucket (ops : List RegOp) :
    (∀ t ∈ (Registry.run lower ettl ops).getTypes, ∃ s ∈ RegSpec.run lower ops, lower s.type = t)
    ∧ (∀ p ∈ (Registry.run lower ettl ops).servers, ∃ s ∈ RegSpec.run lower ops, lower s.server = p.1)
    ∧ RespSpec.enumBacked lower (RegSpec.run lower ops) (Registry.run lower ettl ops).getTypes = true := by
  have h := run_spec lower ettl ops
  have ht : ∀ t ∈ (Registry.run lower ettl ops).getTypes, ∃ s ∈ RegSpec.run lower ops, lower s.type = t := by
    intro t ht
    unfold Registry.getTypes at ht
    rw [List.mem_map] at ht
    obtain ⟨p, hp, rfl⟩ := ht
    obtain ⟨s, hs, hst⟩ := h.inv.types.backed lower hp
    exact ⟨s.clearMemo, by rw [← h.refines]; exact List.mem_map.mpr ⟨s, hs, rfl⟩, hst⟩
  refine ⟨ht, ?_, ?_⟩
  · intro p hp
    obtain ⟨s, hs, hst⟩ := h.inv.servers.backed lower hp
    exact ⟨s.clearMemo, by rw [← h.refines]; exact List.mem_map.mpr ⟨s, hs, rfl⟩, hst⟩
  · unfold RespSpec.enumBacked
    rw [List.all_eq_true]
    intro t htm
    obtain ⟨s, hs, hst⟩ := ht t htm
    rw [List.any_eq_true]
    exact ⟨s, hs, by simpa using hst⟩

/-- the index lookups return exactly the registered services of that type / host / name, in registration order -/
theorem C03_lookups (ops : List RegOp) (k : String) :
    let reg := Registry.run lower ettl ops
    reg.byIndex lower reg.types k = .ok (reg.services.filter (fun s => lower s.type = k))
    ∧ reg.byIndex lower reg.servers k = .ok (reg.services.filter (fun s => lower s.server = k))
    ∧ (∀ s ∈ reg.services, sget lower (lower s.name) reg.services = some s) := by
  have h := (run_spec lower ettl ops).inv
  exact ⟨Registry.byIndex_ok lower _ (Svc.typeKey lower) _ h.distinct h.types k,
         Registry.byIndex_ok lower _ (Svc.serverKey lower) _ h.distinct h.servers k,
         fun s hs => sget_of_mem lower h.distinct hs⟩

/-! ## memo freshness -/

/-- After every history, the memoised records of every registered service that was not written to since its
last (re-)registration equal the records built from its current fields. -/
theorem C03_memo_fresh (ops : List RegOp) :
    ∀ s ∈ (Registry.run lower ettl ops).services, lower s.name ∉ dirty lower ops → MemoOk lower s :=
  (run_spec lower ettl ops).fresh

/-! ## replies -/

section replies
variable {reg : Registry} (hi : IndexInv lower reg) (hm : AllFresh lower reg) (msgs : List Msg)
include hi hm

/-- Soundness: every record offered is — exactly, with the configured TTL, spelling and cache-flush bit — a
record of a registered service that answers one of the questions, and (NSEC aside) the querier does not list
it only with more than half of that TTL.  (For the type-enumeration pointer nothing is configured: its rdata is the
lower-cased type and its TTL the responder's `ettl`.)  `knownOf msgs` is the list the suppression looks at; how it relates
to the querier's list on the wire is the subject of the section on D25 below. -/
theorem C03_answers_sound {d : DictRS} {reg' : Registry} (h : respond lower ettl reg msgs = .ok (some d, reg')) :
    ∀ a ∈ keysOf d, RespSpec.soundAnswer lower ettl reg.services (questionsOf msgs) (knownOf msgs) a = true := by
  rcases respond_ok lower ettl hi msgs with ⟨_, hr⟩ | ⟨_, hr⟩
  · rw [hr] at h; simp at h
  · rw [hr] at h
    have hd : d = answerMap lower ettl reg msgs := by
      have := Except.ok.inj h; exact (Option.some.inj (Prod.mk.inj this).1).symm
    subst hd
    intro a ha
    obtain ⟨q, hq, s, hs, hc, hk⟩ := answerMap_sound lower ettl hi hm msgs ha
    unfold RespSpec.soundAnswer
    rw [Bool.and_eq_true, List.any_eq_true]
    refine ⟨⟨q, hq, ?_⟩, ?_⟩
    · rw [List.any_eq_true]; exact ⟨s, hs, List.contains_iff_mem.mpr (mem_candidatesS_of_mem lower ettl hc)⟩
    · rcases hk with hk | hk
      · simp [hk]
      · cases hn : RespSpec.isNsec a
        · cases hsa : RespSpec.supAll lower (knownOf msgs) a
          · rfl
          · rw [supAll_suppresses lower hsa] at hk; simp at hk
        · rfl

/-- Completeness: every record of a registered service that answers a question is offered (up to record
identity) unless the querier lists it with more than half of its TTL; when the responder stays silent nothing
was owed. -/
theorem C03_answers_complete_per_service {o : Option DictRS} {reg' : Registry} (h : respond lower ettl reg msgs = .ok (o, reg')) :
    RespSpec.completePerService lower ettl reg.services (questionsOf msgs) (knownOf msgs) ((o.getD []).map (·.1)) = true := by
  unfold RespSpec.completePerService
  simp only [List.all_eq_true]
  intro q hq s hs r hr
  cases hn : RespSpec.isNsec r <;> cases hsa : RespSpec.supAny lower (knownOf msgs) r <;>
    simp only [Bool.not_false, Bool.not_true, Bool.true_and, Bool.false_and, Bool.true_or, Bool.false_or, Bool.and_false]
  all_goals
    have hk : RespSpec.isNsec r = true ∨ suppresses lower (knownOf msgs) r = false := by
      first
        | exact Or.inl hn
        | (right
           cases hsup : suppresses lower (knownOf msgs) r
           · rfl
           · rw [suppresses_supAny lower hsup] at hsa; simp at hsa)
    rcases respond_ok lower ettl hi msgs with ⟨hnil, hr2⟩ | ⟨_, hr2⟩
    · exfalso
      obtain ⟨st, hst, _⟩ := strategy_complete lower ettl (knownOf msgs) hi hm hs hr hk
      have : st ∈ strategiesOf lower reg msgs := List.mem_flatMap.mpr ⟨q, hq, hst⟩
      rw [hnil] at this; simp at this
    · rw [hr2] at h
      have hd : o = some (answerMap lower ettl reg msgs) := by
        have := Except.ok.inj h; exact (Prod.mk.inj this).1.symm
      subst hd
      obtain ⟨a, ha, hb⟩ := answerMap_complete lower ettl hi hm msgs hq hs hr hk
      rw [List.any_eq_true]
      exact ⟨a, by simpa [keysOf] using ha, hb⟩

/-- Completeness as the property words it (`RespSpec.complete`, the predicate stage O evaluates): an NSEC is owed only when
no registered service of the asked host has the asked address type; everything else as above. -/
theorem C03_answers_complete {o : Option DictRS} {reg' : Registry} (h : respond lower ettl reg msgs = .ok (o, reg')) :
    RespSpec.complete lower ettl reg.services (questionsOf msgs) (knownOf msgs) ((o.getD []).map (·.1)) = true :=
  RespSpec.complete_of_perService lower ettl _ _ _ _ (C03_answers_complete_per_service lower ettl hi hm msgs h)

/-- Additionals: the additional records attached to an answer are only SRV, TXT, address and NSEC records of
one registered service that owns the answer. -/
theorem C03_additionals {d : DictRS} {reg' : Registry} (h : respond lower ettl reg msgs = .ok (some d, reg')) :
    ∀ p ∈ d, RespSpec.additionalsOk lower ettl reg.services p = true := by
  rcases respond_ok lower ettl hi msgs with ⟨_, hr⟩ | ⟨_, hr⟩
  · rw [hr] at h; simp at h
  · rw [hr] at h
    have hd : d = answerMap lower ettl reg msgs := by
      have := Except.ok.inj h; exact (Option.some.inj (Prod.mk.inj this).1).symm
    subst hd
    intro p hp
    unfold RespSpec.additionalsOk
    rcases answerMap_additionals lower ettl hm msgs p hp with h1 | ⟨s, hs, ⟨o, ho, hob⟩, hx⟩
    · simp [h1]
    · rw [Bool.or_eq_true]; right
      rw [List.any_eq_true]
      refine ⟨s, hs, ?_⟩
      rw [Bool.and_eq_true, List.any_eq_true, List.all_eq_true]
      exact ⟨⟨o, ho, hob⟩, fun x hx2 => List.contains_iff_mem.mpr (hx x hx2)⟩

/-- a query leaves the registry's indexes and freshness intact (it only fills memo slots) -/
theorem C03_query_preserves {o : Option DictRS} {reg' : Registry} (h : respond lower ettl reg msgs = .ok (o, reg')) :
    IndexInv lower reg' ∧ AllFresh lower reg' ∧ reg'.services.map Svc.clearMemo = reg.services.map Svc.clearMemo := by
  rcases respond_ok lower ettl hi msgs with ⟨_, hr⟩ | ⟨_, hr⟩
  · rw [hr] at h
    have : reg' = reg := by have := Except.ok.inj h; exact (Prod.mk.inj this).2.symm
    subst this; exact ⟨hi, hm, rfl⟩
  · rw [hr] at h
    have : reg' = warmed lower reg msgs := by have := Except.ok.inj h; exact (Prod.mk.inj this).2.symm
    subst this
    exact ⟨warmed_inv lower hi msgs,
           fun s hs => warmed_memo lower msgs (lower s.name) (fun o ho _ => hm o ho) s hs rfl,
           warmed_fields lower reg msgs⟩

end replies

/-- `async_response` never raises on a registry reached by a history -/
theorem C03_respond_total (ops : List RegOp) (msgs : List Msg) :
    ∃ o reg', respond lower ettl (Registry.run lower ettl ops) msgs = .ok (o, reg') := by
  rcases respond_ok lower ettl (run_spec lower ettl ops).inv msgs with ⟨_, hr⟩ | ⟨_, hr⟩
  · exact ⟨_, _, hr⟩
  · exact ⟨_, _, hr⟩

/-- The additional section of a packet built from any answer map: only additionals of its answers, none that
repeats an answer, none twice; and the answer section is the key set. -/
theorem C03_additionals_no_repeat (d : DictRS) :
    RespSpec.noRepeat lower (packetize lower d).1 (packetize lower d).2 = true
    ∧ (∀ x ∈ (packetize lower d).2, ∃ p ∈ d, x ∈ p.2)
    ∧ (packetize lower d).1.Perm (d.map (·.1)) := by
  have hinv := packetize_inv lower d
  have hperm := packetize_answers lower d
  refine ⟨?_, hinv.src, hperm⟩
  unfold RespSpec.noRepeat
  rw [Bool.and_eq_true, List.all_eq_true]
  refine ⟨?_, hinv.distinct⟩
  intro x hx
  rw [Bool.not_eq_true', List.any_eq_false]
  intro a ha
  have := hinv.nokey x hx a (hperm.mem_iff.mp ha)
  simp [this]

/-- for a known-answer list that does not contradict itself the two suppression readings coincide -/
theorem C03_known_consistent (known : List Rec) (r : Rec)
    (hc : ∀ k1 ∈ known, ∀ k2 ∈ known, k1.beq lower k2 = true → k1.ttl = k2.ttl) :
    RespSpec.supAny lower known r = RespSpec.supAll lower known r := by
  rw [Bool.eq_iff_iff]
  unfold RespSpec.supAny RespSpec.supAll
  simp only [List.any_eq_true, Bool.and_eq_true, List.all_eq_true, decide_eq_true_eq, Bool.or_eq_true, Bool.not_eq_true']
  constructor
  · rintro ⟨k, hk, hkb, hkt⟩
    refine ⟨⟨k, hk, hkb⟩, ?_⟩
    intro k' hk'
    cases hb : k'.beq lower r
    · exact Or.inl rfl
    · right
      have : k'.ttl = k.ttl := hc k' hk' k hk (beq_trans lower hb (beq_symm lower hkb))
      rw [this]; exact hkt
  · rintro ⟨⟨k, hk, hkb⟩, hall⟩
    rcases hall k hk with h | h
    · rw [hkb] at h; simp at h
    · exact ⟨k, hk, hkb, h⟩

/-! ## the property over histories -/

/-- **C03.**  For every history of register / update / unregister / attribute-write / query operations after
which no registered object has a pending (un-`update`d) write, and every query: the reply is computed without
an exception; every answer is exactly a record of a *currently* registered service (per the abstract map
`RegSpec.run`, so nothing of a replaced or unregistered service survives) that answers a question and is not
known above half its TTL; every such record is offered; and every additional is an SRV/TXT/address/NSEC record
of one service owning its answer. -/
theorem C03_history (ops : List RegOp) (msgs : List Msg) (hclean : dirty lower ops = []) :
    ∃ o reg', respond lower ettl (Registry.run lower ettl ops) msgs = .ok (o, reg')
      ∧ (∀ a ∈ (o.getD []).map (·.1),
            RespSpec.soundAnswer lower ettl (RegSpec.run lower ops) (questionsOf msgs) (knownOf msgs) a = true)
      ∧ RespSpec.completePerService lower ettl (RegSpec.run lower ops) (questionsOf msgs) (knownOf msgs) ((o.getD []).map (·.1)) = true
      ∧ (∀ p ∈ o.getD [], RespSpec.additionalsOk lower ettl (RegSpec.run lower ops) p = true) := by
  have h := run_spec lower ettl ops
  have hm : AllFresh lower (Registry.run lower ettl ops) := fun s hs => h.fresh s hs (by rw [hclean]; simp)
  obtain ⟨o, reg', hr⟩ := C03_respond_total lower ettl ops msgs
  obtain ⟨p1, p2, p3⟩ := RespSpec.preds_clear lower ettl (Registry.run lower ettl ops).services (questionsOf msgs) (knownOf msgs)
  rw [h.refines] at p1 p2 p3
  refine ⟨o, reg', hr, ?_, ?_, ?_⟩
  · intro a ha
    cases o with
    | none => simp at ha
    | some d => rw [p1]; exact C03_answers_sound lower ettl h.inv hm msgs hr a ha
  · rw [p2]; exact C03_answers_complete_per_service lower ettl h.inv hm msgs hr
  · intro p hp
    cases o with
    | none => simp at hp
    | some d => rw [p3]; exact C03_additionals lower ettl h.inv hm msgs hr p hp

/-- after `unregister` the abstract map has no service under those names; after `update s` the only service
under `s`'s name carries `s`'s fields -/
theorem C03_new_state_only (ops : List RegOp) :
    (∀ ks, ∀ o ∈ RegSpec.run lower (ops ++ [.unregister ks]), lower o.name ∉ ks)
    ∧ (∀ s, s.clearMemo ∈ RegSpec.run lower (ops ++ [.update s])
          ∧ ∀ o ∈ RegSpec.run lower (ops ++ [.update s]), lower o.name = lower s.name → o = s.clearMemo) := by
  constructor
  · intro ks o ho
    simp only [RegSpec.run, List.foldl_append, List.foldl_cons, List.foldl_nil, RegSpec.step, List.mem_filter] at ho
    simpa using ho.2
  · intro s
    simp only [RegSpec.run, List.foldl_append, List.foldl_cons, List.foldl_nil, RegSpec.step, List.mem_append, List.mem_filter,
      List.mem_singleton]
    refine ⟨Or.inr trivial, ?_⟩
    intro o ho hn
    rcases ho with ⟨_, h2⟩ | h2
    · simp [hn] at h2
    · exact h2

/-! ## D3 on the unrepaired code, and non-vacuity -/

def exX : Svc := { type := "_a._tcp.local.", name := "x._a._tcp.local.", server := "h1.local.", port := 80, weight := 0,
                   priority := 0, text := [], hostTtl := 120, otherTtl := 4500, v4 := [[10, 0, 0, 1]], v6 := [] }
def exY : Svc := { type := "_b._tcp.local.", name := "y._b._tcp.local.", server := "h1.local.", port := 81, weight := 0,
                   priority := 0, text := [], hostTtl := 120, otherTtl := 4500, v4 := [], v6 := [[0xfe, 0x80, 0, 0, 0, 0, 0, 0, 0, 0, 0, 0, 0, 0, 0, 2]] }

/-- D3 (the code as shipped, `_remove` without bucket deletion): register `x._a._tcp`, `y._b._tcp`, unregister
`x` — `_a._tcp.local.` is still enumerated although no registered service has that type. -/
theorem C03_no_empty_bucket_unrepaired_refuted :
    (match (Registry.run id 4500 [.register exX, .register exY]).removeOneUnrepaired id "x._a._tcp.local." with
     | .ok reg => !(RespSpec.enumBacked id reg.services reg.getTypes) && (reg.getTypes == ["_a._tcp.local.", "_b._tcp.local."])
                  && (reg.services.map (·.name) == ["y._b._tcp.local."])
     | .error _ => false) = true := by decide

/-- the repaired `_remove` on the same history -/
example : (Registry.run id 4500 [.register exX, .register exY, .unregister ["x._a._tcp.local."]]).getTypes = ["_b._tcp.local."] := by
  decide

/-- non-vacuity: a two-service registry (shared host, v4-only and v6-only) meets the hypotheses, and a PTR
question with a known answer just above half TTL for one of two questions gets a non-trivial reply -/
example : IndexInv id (Registry.run id 4500 [.register exX, .register exY]) ∧ AllFresh id (Registry.run id 4500 [.register exX, .register exY]) :=
  ⟨(C03_registry_refines id 4500 _).1, fun s hs => C03_memo_fresh id 4500 _ s hs (by
      have : dirty id [RegOp.register exX, RegOp.register exY] = [] := by decide
      rw [this]; simp)⟩

example :
    (match respond id 4500 (Registry.run id 4500 [.register exX, .register exY])
        [{ isProbe := false,
           questions := [⟨"_a._tcp.local.", 12, 1, false⟩, ⟨"h1.local.", 1, 1, false⟩, ⟨"y._b._tcp.local.", 16, 1, false⟩],
           answers := [⟨"y._b._tcp.local.", 16, 1, true, 2251, 0, .txt []⟩] }] with
     | .ok (some d, _) => d.map (fun p => (p.1.type, p.2.length))
     | _ => []) = [(12, 4), (1, 1), (47, 0)] := by decide

/-! the interesting ways to reach `dirty = []`: write + `update`, and `unregister` -/

def qSrvX : List Msg := [{ isProbe := false, questions := [⟨"x._a._tcp.local.", 33, 1, false⟩], answers := [] }]

def srvPorts (r : Except PyExc (Option DictRS × Registry)) : List Nat :=
  match r with
  | .ok (some d, _) => d.map (fun p => match p.1.rdata with | .srv _ _ port _ => port | _ => 0)
  | _ => []

/-- register, query (fills the SRV memo with port 80), write `port = 81`: inside the dirty window the stale memo answers … -/
example : dirty id [.register exX, .query qSrvX, .mutate "x._a._tcp.local." (.port 81)] = ["x._a._tcp.local."]
    ∧ srvPorts (respond id 4500 (Registry.run id 4500 [.register exX, .query qSrvX, .mutate "x._a._tcp.local." (.port 81)]) qSrvX) = [80] := by
  decide

/-- … and after `async_update` the history is clean again (`C03_history` applies) and the reply carries port 81 -/
example : dirty id [.register exX, .query qSrvX, .mutate "x._a._tcp.local." (.port 81), .update { exX with port := 81 }] = []
    ∧ srvPorts (respond id 4500 (Registry.run id 4500
        [.register exX, .query qSrvX, .mutate "x._a._tcp.local." (.port 81), .update { exX with port := 81 }]) qSrvX) = [81] := by
  decide

/-- after `unregister` the same question gets no reply at all -/
example : (match respond id 4500 (Registry.run id 4500 [.register exX, .query qSrvX, .unregister ["x._a._tcp.local."]]) qSrvX with
           | .ok (none, _) => true
           | _ => false) = true := by decide

/-! ## "minus records the querier lists": the list on the wire versus the list the suppression sees (defect D25)

The theorems above speak about `knownOf msgs`, the records `_answer_question` is given.  A query received on an IPv6 socket is
parsed with the socket's scope id on every AAAA record (`Model/RespScope.lean`); the scope id is not on the wire, the
responder's own records never carry one, and identity compares it.  `respondQ unscopes` is `async_response` on packets as the
listener delivers them; `unscopes = id` is the code with the D25 repair (own records are compared with the known answers
without scope ids), `unscopes = fun _ => false` the code as shipped, `treeUnscopes` (translated leaves) the tree at hand. -/

/-- **full strength**: soundness and completeness with respect to the querier's list *as it is on the wire* -/
def C03_known_on_wire (unscopes : Bool → Bool) : Prop :=
  ∀ reg : Registry, IndexInv lower reg → AllFresh lower reg → ∀ ps : List QPkt, WellStamped ps →
    ∀ o reg', respondQ unscopes lower ettl reg ps = .ok (o, reg') →
      (∀ a ∈ (o.getD []).map (·.1),
          RespSpec.soundAnswer lower ettl reg.services (questionsOf (ps.map (·.msg))) (wireKnown ps) a = true)
      ∧ RespSpec.completePerService lower ettl reg.services (questionsOf (ps.map (·.msg))) (wireKnown ps) ((o.getD []).map (·.1)) = true

/-- the repaired code meets it -/
theorem C03_known_on_wire_repaired : C03_known_on_wire lower ettl id := by
  intro reg hi hm ps hw o reg' h
  unfold respondQ at h
  have hk := knownOf_ownView_repaired hw
  have hq := questionsOf_ownView id ps
  constructor
  · intro a ha
    cases o with
    | none => simp at ha
    | some d =>
      have := C03_answers_sound lower ettl hi hm (ownView id ps) h a (by simpa [keysOf] using ha)
      rw [hk, hq] at this
      exact this
  · have := C03_answers_complete_per_service lower ettl hi hm (ownView id ps) h
    rw [hk, hq] at this
    exact this

/-- … and so does any tree **for queries outside D25's input class** (`NoScopedKnownOfOwn`: no known answer that carries a scope
id is, without it, a record of a registered service) — in particular every query received on an IPv4 socket.  `_partial`:
missing for full strength on the code as shipped is exactly that class (`C03_known_on_wire_shipped_refuted`). -/
theorem C03_known_on_wire_partial (unscopes : Bool → Bool) {reg : Registry} (hi : IndexInv lower reg) (hm : AllFresh lower reg)
    (ps : List QPkt) (hn : NoScopedKnownOfOwn lower ettl reg.services ps)
    {o : Option DictRS} {reg' : Registry} (h : respondQ unscopes lower ettl reg ps = .ok (o, reg')) :
    (∀ a ∈ (o.getD []).map (·.1),
        RespSpec.soundAnswer lower ettl reg.services (questionsOf (ps.map (·.msg))) (wireKnown ps) a = true)
    ∧ RespSpec.completePerService lower ettl reg.services (questionsOf (ps.map (·.msg))) (wireKnown ps) ((o.getD []).map (·.1)) = true := by
  unfold respondQ at h
  have hq := questionsOf_ownView unscopes ps
  have hk := knownOf_ownView unscopes ps
  have hs : ∀ a ∈ (o.getD []).map (·.1),
      RespSpec.soundAnswer lower ettl reg.services (questionsOf (ps.map (·.msg))) (knownOf (ownView unscopes ps)) a = true := by
    intro a ha
    cases o with
    | none => simp at ha
    | some d =>
      have := C03_answers_sound lower ettl hi hm (ownView unscopes ps) h a (by simpa [keysOf] using ha)
      rw [hq] at this
      exact this
  have hc := C03_answers_complete_per_service lower ettl hi hm (ownView unscopes ps) h
  rw [hq] at hc
  cases hu : unscopes (lastScoped ps)
  · rw [hu] at hk
    simp only [Bool.false_eq_true, if_false] at hk
    rw [hk] at hs hc
    exact ⟨fun a ha => soundAnswer_congr lower ettl (fun s hsm r hr => ((sup_wire_eq lower ettl hn hsm hr).2).symm) (hs a ha),
           completePerService_congr lower ettl (fun s hsm r hr => ((sup_wire_eq lower ettl hn hsm hr).1).symm) hc⟩
  · rw [hu] at hk
    simp only [if_true] at hk
    rw [hk] at hs hc
    exact ⟨hs, hc⟩

/-- the working tree is one of the two — **whichever**: this is a disjunction that is true of a tree with and of a tree without the
repair, it does not say which one `/repo` is.  That `/repo` (7c87afc and later) is the repaired one rests on the two translated leaves
(`own_known_unscoped`: the test `msg.scope_id is not None` exists in `async_response`; `own_known_passed`: `own_known_answers` is an
argument of the `_answer_question` call — they pin neither the body of `_without_scope_id` nor how `own_known_answers` is built) and
on stream 1 of the harness, which parses queries with scope ids None / 3 / 0 and diffs the replies against `respondQ treeUnscopes`. -/
theorem C03_tree_unscopes : (∀ b, treeUnscopes b = b) ∨ (∀ b, treeUnscopes b = false) := by
  first
    | (left; intro b; cases b <;> rfl)
    | (right; intro b; cases b <;> rfl)

/-- D25's witness: `y._b._tcp` on `h1.local.` with the address fe80::2; `AAAA h1.local.?` listing exactly that record with its full
TTL, received on an IPv6 socket (scope id 3) -/
def d25Query : List QPkt :=
  [{ msg := { isProbe := false, questions := [⟨"h1.local.", 28, 1, false⟩],
              answers := [⟨"h1.local.", 28, 1, true, 120, 0, .addr [0xfe, 0x80, 0, 0, 0, 0, 0, 0, 0, 0, 0, 0, 0, 0, 0, 2] (some 3)⟩] },
     hasScope := true }]

/-- the responder's own record for that address -/
def d25Aaaa : Rec := ⟨"h1.local.", 28, 1, true, 120, 0, .addr [0xfe, 0x80, 0, 0, 0, 0, 0, 0, 0, 0, 0, 0, 0, 0, 0, 2] none⟩

theorem d25Query_wellStamped : WellStamped d25Query := by
  constructor
  · intro p hp; simp [d25Query] at hp; subst hp; rfl
  · intro p hp hf; simp [d25Query] at hp; subst hp; simp at hf

/-- the code as shipped offers the AAAA record although the querier lists it with its full TTL -/
theorem C03_known_on_wire_shipped_refuted : ¬ C03_known_on_wire id 4500 (fun _ => false) := by
  intro h
  have hr := h (Registry.run id 4500 [.register exY]) (C03_registry_refines id 4500 _).1
    (fun s hs => C03_memo_fresh id 4500 _ s hs (by
      have : dirty id [RegOp.register exY] = [] := by decide
      rw [this]; simp))
    d25Query d25Query_wellStamped
  have h2 : (match respondQ (fun _ => false) id 4500 (Registry.run id 4500 [.register exY]) d25Query with
             | .ok (some d, _) => d.map (·.1)
             | _ => []) = [d25Aaaa] := by decide
  have hf : RespSpec.soundAnswer id 4500 (Registry.run id 4500 [.register exY]).services
      (questionsOf (d25Query.map (·.msg))) (wireKnown d25Query) d25Aaaa = false := by decide
  cases hres : respondQ (fun _ => false) id 4500 (Registry.run id 4500 [.register exY]) d25Query with
  | error e => rw [hres] at h2; simp at h2
  | ok p =>
    obtain ⟨o, reg'⟩ := p
    cases o with
    | none => rw [hres] at h2; simp at h2
    | some d =>
      rw [hres] at h2
      simp only at h2
      have hs := (hr (some d) reg' hres).1 d25Aaaa (by simp [h2])
      rw [hf] at hs
      exact Bool.false_ne_true hs

/-- non-vacuity of `NoScopedKnownOfOwn`: the same question listing the record *without* a scope id (an IPv4 socket), and a
scoped known answer for an address nobody registered, are inside the hypothesis; the witness is exactly what it excludes -/
example :
    NoScopedKnownOfOwn id 4500 (Registry.run id 4500 [.register exY]).services
      [{ msg := { isProbe := false, questions := [⟨"h1.local.", 28, 1, false⟩],
                  answers := [⟨"h1.local.", 28, 1, true, 120, 0, .addr [0xfe, 0x80, 0, 0, 0, 0, 0, 0, 0, 0, 0, 0, 0, 0, 0, 2] none⟩,
                              ⟨"h1.local.", 28, 1, true, 120, 0, .addr [0xfe, 0x80, 0, 0, 0, 0, 0, 0, 0, 0, 0, 0, 0, 0, 0, 9] (some 3)⟩] },
         hasScope := true }]
    ∧ ¬ NoScopedKnownOfOwn id 4500 (Registry.run id 4500 [.register exY]).services d25Query := by
  unfold NoScopedKnownOfOwn
  constructor <;> decide

/-! ## the last clause at the wire: replies transmitted after an update (finding D20)

`C03_history` speaks about the value `async_response` returns.  Most multicast replies are not sent at once but queued
(`Zc.RHost.pending`); `async_update_service` does not revise the queues, so a reply computed before an update can leave
after it.  Full-strength statement, its refutation on today's code, and the part that holds. -/

/-- **full strength (false today — D20)**: in every history of API calls, queries and queue flushes (attribute writes
expressed as `update`), every datagram consists of records of services registered when it is sent -/
def C03_transmitted_current : Prop :=
  ∀ ops : List HostOp, (∀ op ∈ ops, ∀ k m, op ≠ .api (.mutate k m)) →
    ∀ o ∈ (RHost.run lower ettl ops).2, Sent.current lower ettl o = true

def qTxtSrvX : List Msg :=
  [{ isProbe := false, questions := [⟨"x._a._tcp.local.", 16, 1, false⟩, ⟨"x._a._tcp.local.", 33, 1, false⟩], answers := [] }]

/-- D20's witness: register, a TXT+SRV query whose reply is queued, update to port 81, then the queue fires -/
def d20Pre : List HostOp := [.api (.register exX), .api (.query qTxtSrvX), .api (.update { exX with port := 81 })]
def d20Ops : List HostOp := d20Pre ++ [.transmit]

/-- the datagram sent after the update still carries SRV port 80, which no registered service owns -/
theorem C03_transmitted_current_refuted : ¬ C03_transmitted_current id 4500 := by
  intro h
  have h1 := h d20Ops (by intro op hop k m e; subst e; simp [d20Ops, d20Pre] at hop)
  -- the state when the queue fires: one pending map with the old SRV as a key; the registry has port 81
  have hpend : (RHost.runFrom id 4500 {} d20Pre).1.pending.any
      (fun d => !d.isEmpty && (d.map (·.1)).contains (RespSpec.srvOf exX)) = true := by decide
  have hown : ((RHost.runFrom id 4500 {} d20Pre).1.reg.services.map Svc.clearMemo).any
      (fun s => (RespSpec.own id 4500 s).contains (RespSpec.srvOf exX)) = false := by decide
  rw [List.any_eq_true] at hpend
  obtain ⟨d, hd, hprops⟩ := hpend
  rw [Bool.and_eq_true] at hprops
  have ho : ((RHost.runFrom id 4500 {} d20Pre).1.reg.services.map Svc.clearMemo, packetize id d) ∈ (RHost.run id 4500 d20Ops).2 := by
    simp only [RHost.run, d20Ops, RHost.runFrom_append, RHost.runFrom, RHost.step, List.append_nil, List.mem_append, List.mem_map,
      List.mem_filter]
    exact Or.inr ⟨d, ⟨hd, hprops.1⟩, rfl⟩
  have hcur := h1 _ ho
  unfold Sent.current at hcur
  rw [List.all_eq_true] at hcur
  have hmem : RespSpec.srvOf exX ∈ (packetize id d).1 :=
    (packetize_answers id d).mem_iff.mpr (by simpa [keysOf] using List.contains_iff_mem.mp hprops.2)
  have := hcur _ (List.mem_append.mpr (Or.inl hmem))
  rw [hown] at this
  exact Bool.false_ne_true this

/-- **the part that holds** (`_partial`): for every history none of whose operations is in the input class of D20, D20b or D20c
(`noSupersededReplyQueued`, evaluated operation by operation:
* at `update s` — every pending record *of the service `s` replaces* is still a record of a registered service afterwards (D20 is
  exactly the negation: a queued record that the update supersedes);
* at `unregister` — every type-enumeration pointer, and with a shared host every address / NSEC record of the withdrawn service,
  that is still pending **after the purge** is a record of a service that stays registered (D20b, D20c);
* attribute writes come as `update`, as in `C03_transmitted_current`)
every datagram ever sent consists of records of services registered at that instant.  The proof shows that the records
`async_unregister_service` purges (`purgeMap`: PTR, SRV, TXT, and the address/NSEC set of an unshared host) are gone from every
pending reply — without the D5 purge the theorem is false.
**What the hypothesis excludes, precisely** (it is *not* just the complement of the three findings): (1) the input classes of D20,
D20b and D20c, operation by operation; (2) **every history that contains an attribute write** (`changeOk (.mutate …) = false`: in this
layer a write followed by `async_update_service` has to be given as one `update` with the new fields — a reply computed *between* a
write and its update, from a stale memo, is not covered); (3) nothing else — but the layer itself is narrower than the code in one
more respect: `HostOp.unregister` carries keys and `RHost.unregisterOne` purges the **registered** object's records, i.e. the call
through the registered object or an equal copy; `async_unregister_service` handed a `ServiceInfo` whose records differ purges and says
goodbye with the handle's records (finding R3-C03-a), which this model cannot express.  No harness drives this layer (`RHost`): it
is an abstraction of the two multicast queues, tied to the code only by the comparison of its ingredients (`respond`, `packetize`,
the registry) in stream 1; the implementation's datagrams around an update/unregister are judged by the oracle directly. -/
theorem C03_transmitted_current_partial (ops : List HostOp) (hq : noSupersededReplyQueued lower ettl {} ops = true) :
    ∀ o ∈ (RHost.run lower ettl ops).2, Sent.current lower ettl o = true :=
  runFrom_spec lower ettl ops (PendInv.init lower ettl) hq

def qPtrA : List Msg := [{ isProbe := false, questions := [⟨"_a._tcp.local.", 12, 1, false⟩], answers := [] }]

/-- non-vacuity of the hypothesis, and its exactness on the benign histories the earlier, broader hypothesis rejected:
the exchange with the queue flushed before the update; **a PTR reply pending at the unregister of its service** (the purge empties
it, nothing is sent); **a no-op update with a reply pending**; an update of the port while only the PTR is pending — all inside;
the witness of the refutation is outside -/
example :
    noSupersededReplyQueued id 4500 {} [.api (.register exX), .api (.query qTxtSrvX), .transmit,
        .api (.update { exX with port := 81 }), .api (.query qTxtSrvX), .transmit] = true
    ∧ (RHost.run id 4500 [.api (.register exX), .api (.query qTxtSrvX), .transmit,
        .api (.update { exX with port := 81 }), .api (.query qTxtSrvX), .transmit]).2.length = 2
    ∧ noSupersededReplyQueued id 4500 {} [.api (.register exX), .api (.query qPtrA), .api (.unregister ["x._a._tcp.local."]), .transmit] = true
    ∧ (RHost.run id 4500 [.api (.register exX), .api (.query qPtrA), .api (.unregister ["x._a._tcp.local."]), .transmit]).2.length = 0
    ∧ noSupersededReplyQueued id 4500 {} [.api (.register exX), .api (.query qTxtSrvX), .api (.update exX), .transmit] = true
    ∧ (RHost.run id 4500 [.api (.register exX), .api (.query qTxtSrvX), .api (.update exX), .transmit]).2.length = 1
    ∧ noSupersededReplyQueued id 4500 {} d20Ops = false := by decide

/-- D20b and D20c are outside too: an enumeration answer pending when the last service of its type is withdrawn; an A answer
pending when one of two services on the host is withdrawn (its NSEC additional and its address record at its own TTL stay) -/
example :
    noSupersededReplyQueued id 4500 {} [.api (.register exX),
        .api (.query [{ isProbe := false, questions := [⟨"_services._dns-sd._udp.local.", 12, 1, false⟩], answers := [] }]),
        .api (.unregister ["x._a._tcp.local."]), .transmit] = false
    ∧ noSupersededReplyQueued id 4500 {} [.api (.register exX), .api (.register exY),
        .api (.query [{ isProbe := false, questions := [⟨"h1.local.", 28, 1, false⟩], answers := [] }]),
        .api (.unregister ["y._b._tcp.local."]), .transmit] = false := by decide

/-! ## Tie: the source of `_services/registry.py`, translated statement by statement on every run

**What "translated" covers, precisely** (`tools/fnspecs/_common.py`, spec type `Svc`): control flow, dict/list operations and their
raise sites (`KeyError`, `ValueError`, `ServiceNameAlreadyRegistered`) are translated from the method bodies; four things about the
`ServiceInfo` argument are *substituted*, not translated: `info.key` ↦ `lower info.name`, `info.server_key` ↦ `lower info.server`,
`info.async_clear_cache()` ↦ `Svc.clearMemo`, and — because `Svc.server` is a `String` — the two statements
`assert info.server_key is not None` of `_add` / `_remove` ↦ `pyAssert true` (they can never fail in the generated functions).  So the
equation below is about `ServiceInfo` objects whose `key` / `server_key` are what `ServiceInfo.__init__` derives (`name.lower()`,
`server.lower()`) and that have a server: a `server_key` that is not `server.lower()` (seeded defect C03-w4-seed2) or a server-less
object reaching `registry.async_update` (which raises *after* `_remove`, leaving the removed state — whereas `gstep` keeps the state
before a call that raises) are invisible to `C03_registry_is_source` by construction; both are the harness's (stream 1 compares
`server_key`-keyed dumps; the API path of the second is repaired by 55cb5cf, D26).

`Zc.GenFn.Registry` is regenerated from the *bodies* of all methods of `ServiceRegistry` (`tools/gen_fn.py`);
`GenFacts/FnRegistry.lean` proves, method by method and under the representation invariant `RInv` (which every mutator
preserves), that the hand-written `Registry` model above computes what those bodies compute.  **What this transports**: each
registry operation of the model is the translated body, along every sequence of calls (`C03_registry_is_source`), plus the two
component facts restated below over the generated functions; an edit of a method body that changes what it computes breaks a named
lemma of `FnRegistry` at stage P.  **The responder over the translated readers** (`GenFacts/FnResponderRun.lean`): `respond` reads the registry only in
`_get_answer_strategies` (type index, server index, services dict, list of types); `respondG` is `respond` with those four reads being the
translated `async_get_infos_type`, `async_get_infos_server`, `async_get_info_name`, `async_get_types` on the generated object, and
`respondG_eq` proves it computes the model's answers under `RInv`.  Hence `C03_answers_sound_source`, `C03_answers_complete_source`
and, along every history of API calls on a fresh generated registry, `C03_history_source`.
**A raise site discharged by pins, not by the type**: the spec types `ServiceInfo.server_key` as a string (the model's `Svc.server :
String`), so `assert info.server_key is not None` in `_add` / `_remove` is `pyAssert true` in the generated functions and
`C03_registry_is_source` quantifies over infos that *have* a server.  That precondition is discharged for the library's own call paths by
the source pins of `tools/fnspecs/registry.py` (`tools/fn_pins.py`, stage T; listed in the header of `GenFn/Registry.lean`): every
`registry.async_add / async_update / async_remove(x)` is in `_core.py` and dominated in the same function by
`x.set_server_if_missing()` (a revert of the D26 repair fails the pin), `set_server_if_missing` sets `server` / `server_key` when there
is none, `server_key` is assigned only as `server.lower()` right after `server`, `key` only as `name.lower()` right after `_name`; and no
mapped class defines `__bool__` / `__len__` (the specs' `always_truthy`).  A caller *outside* the library that hands the registry a
server-less `ServiceInfo` directly is outside this statement.
**What it does not**: strategy selection and `_answer_question` themselves are hand-written models around the translated readers; the
memo warming of `respond` (its second component) and the host runs over `HostOp` (transmissions) are not restated. -/
section Tie
open Zc.Py Zc.GenFn.Registry Zc.GenFacts.FnRegistry

/-- **The model's registry is the translated code's, along every history of API calls.**  After any sequence of
`async_add` / `async_remove` / `async_update` calls on a fresh `ServiceRegistry` (a call that raises leaves the registry as it
was) the four fields of the generated object are those of `Registry.run` on the same calls, and the dicts are well formed. -/
theorem C03_registry_is_source (ops : List ROp) :
    absR (gRun lower ops) = Registry.run lower ettl (ops.map (toRegOp lower)) ∧ RInv lower (gRun lower ops) :=
  gRun_eq lower ettl ops

/-- **D3 for the translated code: no empty bucket is ever advertised.**  After any history of API calls, every type the
generated `async_get_types` enumerates has a service that the generated `async_get_service_infos` returns. -/
theorem C03_no_empty_bucket_source (ops : List ROp) :
    ∀ t ∈ (gRun lower ops).async_get_types, ∃ s ∈ (gRun lower ops).async_get_service_infos, lower s.type = t := by
  intro t ht
  have h := (gRun_eq lower 0 ops).1
  rw [async_get_types_eq, h] at ht
  rw [async_get_service_infos_eq, h]
  obtain ⟨s, hs, hst⟩ := (C03_no_empty_bucket lower 0 (ops.map (toRegOp lower))).1 t ht
  rw [← (C03_registry_refines lower 0 (ops.map (toRegOp lower))).2] at hs
  obtain ⟨s0, hs0, rfl⟩ := List.mem_map.1 hs
  exact ⟨s0, hs0, hst⟩

/-- **The look-ups of the translated code** return exactly the registered services of that type / host, in registration
order, and never raise, after any history. -/
theorem C03_lookups_source (ops : List ROp) (k : String) :
    (gRun lower ops).async_get_infos_type k = .ok ((gRun lower ops).async_get_service_infos.filter (fun s => lower s.type = k))
    ∧ (gRun lower ops).async_get_infos_server k = .ok ((gRun lower ops).async_get_service_infos.filter (fun s => lower s.server = k)) := by
  have h := gRun_eq lower 0 ops
  have hl := C03_lookups lower 0 (ops.map (toRegOp lower)) k
  rw [async_get_infos_type_eq lower _ k h.2, async_get_infos_server_eq lower _ k h.2, async_get_service_infos_eq, h.1]
  exact ⟨hl.1, hl.2.1⟩

/-- non-vacuity: register two services of one type, unregister both — the type bucket is gone (D3), the generated look-up
is empty -/
example :
    (gRun id [.add exX, .add { exX with name := "z._a._tcp.local." }, .remove [exX], .remove [{ exX with name := "z._a._tcp.local." }]]).async_get_types = []
    ∧ ((gRun id [.add exX, .add { exX with name := "z._a._tcp.local." }, .remove [exX]]).async_get_infos_type "_a._tcp.local.").toOption
        = some [{ exX with name := "z._a._tcp.local." }]
    ∧ (gRun id [.add exX, .add exX, .remove [exX]]).has_entries = false := by
  decide

open Zc.GenFacts.FnResponderRun in
/-- **C03_answers_sound, for the responder over the translated registry readers** -/
theorem C03_answers_sound_source (s : ServiceRegistry) (hinv : RInv lower s) (hi : IndexInv lower (absR s)) (hm : AllFresh lower (absR s))
    (msgs : List Msg) {d : DictRS} (h : respondG lower ettl s msgs = .ok (some d)) :
    ∀ a ∈ keysOf d, RespSpec.soundAnswer lower ettl s.async_get_service_infos (questionsOf msgs) (knownOf msgs) a = true := by
  rw [respondG_eq lower ettl s hinv] at h
  cases hr : respond lower ettl (absR s) msgs with
  | error e => rw [hr] at h; cases h
  | ok p =>
    rw [hr] at h
    simp only [Except.map, Except.ok.injEq] at h
    have hr' : respond lower ettl (absR s) msgs = .ok (some d, p.2) := by rw [hr, ← h]
    exact C03_answers_sound lower ettl hi hm msgs hr'

open Zc.GenFacts.FnResponderRun in
/-- **C03_answers_complete, for the responder over the translated registry readers** -/
theorem C03_answers_complete_source (s : ServiceRegistry) (hinv : RInv lower s) (hi : IndexInv lower (absR s)) (hm : AllFresh lower (absR s))
    (msgs : List Msg) {o : Option DictRS} (h : respondG lower ettl s msgs = .ok o) :
    RespSpec.complete lower ettl s.async_get_service_infos (questionsOf msgs) (knownOf msgs) ((o.getD []).map (·.1)) = true := by
  rw [respondG_eq lower ettl s hinv] at h
  cases hr : respond lower ettl (absR s) msgs with
  | error e => rw [hr] at h; cases h
  | ok p =>
    rw [hr] at h
    simp only [Except.map, Except.ok.injEq] at h
    have hr' : respond lower ettl (absR s) msgs = .ok (o, p.2) := by rw [hr, ← h]
    exact C03_answers_complete lower ettl hi hm msgs hr'

open Zc.GenFacts.FnResponderRun in
/-- **C03_history, for the translated code**: after any history of `async_add` / `async_remove` / `async_update` calls on a fresh
generated registry (no pending attribute write), the responder over its translated readers computes a reply without an exception;
every answer is exactly a record of a currently registered service that answers a question and is not known above half its TTL, every
such record is offered, and the additionals belong to the service owning their answer -/
theorem C03_history_source (ops : List ROp) (msgs : List Msg) (hclean : dirty lower (ops.map (toRegOp lower)) = []) :
    ∃ o, respondG lower ettl (gRun lower ops) msgs = .ok o
      ∧ (∀ a ∈ (o.getD []).map (·.1),
            RespSpec.soundAnswer lower ettl (RegSpec.run lower (ops.map (toRegOp lower))) (questionsOf msgs) (knownOf msgs) a = true)
      ∧ RespSpec.completePerService lower ettl (RegSpec.run lower (ops.map (toRegOp lower))) (questionsOf msgs) (knownOf msgs)
          ((o.getD []).map (·.1)) = true
      ∧ (∀ p ∈ o.getD [], RespSpec.additionalsOk lower ettl (RegSpec.run lower (ops.map (toRegOp lower))) p = true) := by
  obtain ⟨ha, hinv⟩ := gRun_eq lower ettl ops
  obtain ⟨o, reg', hr, h1, h2, h3⟩ := C03_history lower ettl (ops.map (toRegOp lower)) msgs hclean
  refine ⟨o, ?_, h1, h2, h3⟩
  rw [respondG_eq lower ettl _ hinv, ha, hr]
  rfl

end Tie

end Zc
