import Zc.Model.Responder
import Zc.Model.RespSpec
/-! # C03 — placeholder (theorems follow) -/
namespace Zc

theorem C03_placeholder (s : Svc) : (s.clearMemo).ptr = s.buildPtr := rfl

end Zc
