import Zc.Props.C04
/-! # C04 next to a hand-written listener that re-enters the record manager in the UPDATE round (findings S1, S6)

`known_findings.json` S1 / S6 (`C04:update-round-reentrant-listener:removed-twice` / `…:added-before-cached`): a `RecordUpdateListener`
that calls `async_add_listener(listener, question)` from inside its `async_update_records` — the *first* round of
`async_updates_from_response` — makes `async_add_listener` purge the expired records and run the purge's own two listener rounds in the
middle of the datagram's first round.  A browser of the same instance is then in one of two positions of the listener set:

* iterated **after** that listener (S1): the nested rounds hand it `(record, record)` for a record that had run out unpurged and it
  fires Removed; its own `async_update_records` then sees the datagram's goodbye for the same (still cached) record and queues Removed
  again — Removed twice, no alternation;
* iterated **before** it (S6): its own `async_update_records` has already queued Added for a new pointer record; the nested completion
  round fires that Added while the datagram's records are not cached yet (the adds come after round 1).

This file is the Lean counterpart the findings policy asks for: the smallest composite that has the behaviour (one browser, one such
listener, one datagram; built from the same `ingestPre` / `expire` / `Browser.updateRecords` / `Browser.complete` / `ingestFinish` the C04
and C06 models use), the two sentences as `def … : Prop` for that composite, `…_refuted` at the witnesses the harness replays
(`harness/c04.py: update_round_histories`), and `…_partial`: without such a listener the composite is `Browser.onDatagram`, i.e. the run
function of `C04_alternates` / `C04_live_eq_cache`.  The input class of each finding (`S1Class`, `S6Class`) is what the harness signature
is computed from. -/
namespace Zc

section
variable (lower : String → String) (possible : String → List String)

/-- where the re-entering listener stands in the iteration of `self.listeners.copy()` relative to the browser -/
inductive ReentrantAt where
  | none            -- no such listener
  | before (t : Ms) -- iterated before the browser; its `async_add_listener(…, question)` reads the clock `t`
  | after (t : Ms)  -- iterated after the browser
  deriving DecidableEq, Repr

/-- the nested part of `async_add_listener(l, question)` that concerns a registered browser: purge at `t`; `if expired:` one update
round `(r, r)` and one completion round.  Returns the cache, the browser and the callbacks fired (with the cache they were fired on). -/
def nestedPurge (c : Cache) (b : Browser) (t : Ms) : Except PyExc (Cache × Browser × List (Callback × Cache)) := do
  let out ← expire (Cache.ops lower) c (Gen.Cache.add_listener_purge_expire_now t)
  if out.2.isEmpty then pure (out.1, b, [])
  else
    let b1 := Browser.updateRecords lower possible out.1 (Gen.Cache.add_listener_purge_updates_now t) b (out.2.map (fun r => (r, some r)))
    pure (out.1, (Browser.complete b1).1, (Browser.complete b1).2.map (fun cb => (cb, out.1)))

/-- one response datagram with one browser and (possibly) one listener that re-enters from its update callback: every callback the
browser fires, in order, each with the cache at the moment it is fired -/
def updateRoundReentrant (at_ : ReentrantAt) (c : Cache) (b : Browser) (now : Ms) (recs : List Rec) :
    Except PyExc (Cache × Browser × List (Callback × Cache)) := do
  let a := ingestPre lower (Cache.ops lower) c now recs
  if a.updates.isEmpty then
    let f ← ingestFinish (Cache.ops lower) a.cache a
    pure (f.1, b, [])
  else
    let us (c1 : Cache) := livePairs (Cache.ops lower) c1 a.updates
    match at_ with
    | .none =>
      let b1 := Browser.updateRecords lower possible a.cache now b (us a.cache)
      let f ← ingestFinish (Cache.ops lower) a.cache a
      pure (f.1, (Browser.complete b1).1, (Browser.complete b1).2.map (fun cb => (cb, f.1)))
    | .before t =>
      -- the listener's callback first: purge + nested rounds; then the browser's own update call, on the purged cache
      let (c1, b0, fired0) ← nestedPurge lower possible a.cache b t
      -- (the `RecordUpdate` objects were built before round 1: `old` is the cached *object*, also when the nested purge removed it)
      let b1 := Browser.updateRecords lower possible c1 now b0 (us a.cache)
      let f ← ingestFinish (Cache.ops lower) c1 a
      pure (f.1, (Browser.complete b1).1, fired0 ++ (Browser.complete b1).2.map (fun cb => (cb, f.1)))
    | .after t =>
      -- the browser's update call first (it queues its changes); then the listener's callback: the nested completion fires them
      let b1 := Browser.updateRecords lower possible a.cache now b (us a.cache)
      let (c1, b2, fired0) ← nestedPurge lower possible a.cache b1 t
      let f ← ingestFinish (Cache.ops lower) c1 a
      pure (f.1, (Browser.complete b2).1, fired0 ++ (Browser.complete b2).2.map (fun cb => (cb, f.1)))

/-- Added/Removed of one (type, instance) among fired callbacks -/
def changesOf (fired : List (Callback × Cache)) (t a : String) : List Change :=
  (fired.filter (fun f => f.1.type == t && lower f.1.name == lower a && f.1.change != .updated)).map (fun f => f.1.change)

/-- **S1's sentence** (C04 clause 1 for the composite): continuing from an instance that is currently Added, the callbacks of one
datagram for it alternate -/
def S1_alternates_statement (at_ : ReentrantAt) : Prop :=
  ∀ (c : Cache) (b : Browser) (now : Ms) (recs : List Rec) (t a : String) out,
    updateRoundReentrant lower possible at_ c b now recs = .ok out →
    alternates (.added :: changesOf lower out.2.2 t a) = true

/-- **S6's sentence** (C04 clause 3 for the composite): every Added is fired on a cache that holds the pointer record -/
def S6_added_after_cache_statement (at_ : ReentrantAt) : Prop :=
  ∀ (c : Cache) (b : Browser) (now : Ms) (recs : List Rec) out,
    updateRoundReentrant lower possible at_ c b now recs = .ok out →
    ∀ f ∈ out.2.2, f.1.change = .added → (f.2.getUnique lower (ptrRec f.1.type f.1.name)).isSome = true

/-- the input class of S1: the datagram withdraws (zero-TTL copy) a pointer record of a browsed type that is cached and had run out by
the re-entering listener's clock reading, and that listener is iterated before the browser -/
def S1Class (at_ : ReentrantAt) (c : Cache) (b : Browser) (recs : List Rec) : Prop :=
  ∃ t, at_ = .before t ∧ ∃ r ∈ recs, r.ttl = 0 ∧ r.type = 12 ∧ r.name ∈ b.types
    ∧ ∃ e, c.getUnique lower r = some e ∧ e.created + 1000 * (e.ttl : Int) ≤ t

/-- the input class of S6: the datagram announces a pointer record of a browsed type that is not cached, some cached record had run out
by the listener's clock reading (so the nested rounds run), and the listener is iterated after the browser -/
def S6Class (at_ : ReentrantAt) (c : Cache) (b : Browser) (recs : List Rec) : Prop :=
  ∃ t, at_ = .after t ∧ (∃ r ∈ recs, r.ttl ≠ 0 ∧ r.type = 12 ∧ r.name ∈ b.types ∧ c.getUnique lower r = none)
    ∧ ∃ e ∈ c.allRecs, e.created + 1000 * (e.ttl : Int) ≤ t

end

/-! ### the witnesses (the histories `harness/c04.py:update_round_histories` replays on the real code) -/

def s1Ptr : Rec := ⟨"_x._tcp.local.", 12, 1, false, 120, 0, .ptr "a._x._tcp.local."⟩
def s6Addr : Rec := ⟨"h.local.", 1, 1, false, 120, 0, .addr [10, 0, 0, 1] none⟩
def s6Ptr : Rec := ⟨"_x._tcp.local.", 12, 1, false, 4500, 0, .ptr "b._x._tcp.local."⟩
def sBrowser : Browser := { types := ["_x._tcp.local."] }

/-- a computation that succeeds with a result satisfying `p` -/
def okAnd {α} (r : Except PyExc α) (p : α → Bool) : Bool := match r with | .ok o => p o | .error _ => false

theorem okAnd_spec {α} {r : Except PyExc α} {p : α → Bool} (h : okAnd r p = true) : ∃ o, r = .ok o ∧ p o = true := by
  cases r with
  | error e => simp [okAnd] at h
  | ok o => exact ⟨o, rfl, h⟩

/-- S1 at its witness: PTR (TTL 120 → 1125 s) cached at 1 000 000; its goodbye arrives at 2 125 500, 500 ms after it ran out, unpurged;
the listener iterated before the browser re-enters at that instant: Removed, Removed -/
theorem S1_alternates_refuted : ¬ S1_alternates_statement id (fun n => [n]) (.before 2125500) := by
  intro h
  obtain ⟨out, ho, hp⟩ := okAnd_spec (p := fun out => !(alternates (.added :: changesOf id out.2.2 "_x._tcp.local." "a._x._tcp.local.")))
    (r := updateRoundReentrant id (fun n => [n]) (.before 2125500) (cacheAfter id [.datagram 1000000 [s1Ptr]]) sBrowser 2125500 [{ s1Ptr with ttl := 0 }])
    (by decide +kernel)
  have := h _ _ _ _ "_x._tcp.local." "a._x._tcp.local." out ho
  rw [this] at hp
  cases hp

/-- … and the witness is in the class the signature is computed from -/
example : S1Class id (.before 2125500) (cacheAfter id [.datagram 1000000 [s1Ptr]]) sBrowser [{ s1Ptr with ttl := 0 }] :=
  ⟨2125500, rfl, _, List.mem_singleton.2 rfl, rfl, rfl, by decide,
    ⟨{ s1Ptr with ttl := 1125, created := 1000000 }, by decide +kernel, by decide⟩⟩

/-- S6 at its witness: an address (TTL 120) cached at 1 000 000 has run out at 1 121 000, unpurged; a new PTR arrives then; the
listener iterated after the browser re-enters: Added is fired on a cache without the pointer record -/
theorem S6_added_after_cache_refuted : ¬ S6_added_after_cache_statement id (fun n => [n]) (.after 1121000) := by
  intro h
  obtain ⟨out, ho, hp⟩ := okAnd_spec
    (p := fun out => out.2.2.any (fun f => f.1.change == .added && !(f.2.getUnique id (ptrRec f.1.type f.1.name)).isSome))
    (r := updateRoundReentrant id (fun n => [n]) (.after 1121000) (cacheAfter id [.datagram 1000000 [s6Addr]]) sBrowser 1121000 [s6Ptr])
    (by decide +kernel)
  rw [List.any_eq_true] at hp
  obtain ⟨f, hf, hq⟩ := hp
  simp only [Bool.and_eq_true, beq_iff_eq, Bool.not_eq_true'] at hq
  have := h _ _ _ _ out ho f hf hq.1
  rw [hq.2] at this
  cases this

/-- with the same inputs and no such listener both sentences hold (the composite is then `Browser.onDatagram`) -/
example :
    (match updateRoundReentrant id (fun n => [n]) .none (cacheAfter id [.datagram 1000000 [s1Ptr]]) sBrowser 2125500 [{ s1Ptr with ttl := 0 }] with
      | .ok out => alternates (.added :: changesOf id out.2.2 "_x._tcp.local." "a._x._tcp.local.") | .error _ => false) = true
    ∧ (match updateRoundReentrant id (fun n => [n]) .none (cacheAfter id [.datagram 1000000 [s6Addr]]) sBrowser 1121000 [s6Ptr] with
      | .ok out => out.2.2.all (fun f => f.1.change != .added || (f.2.getUnique id (ptrRec f.1.type f.1.name)).isSome) | .error _ => false) = true := by
  decide

section
variable (lower : String → String) (possible : String → List String)

/-- **partial**: without a re-entering listener the composite *is* the step of `browserRunFrom` — the run function of `C04_alternates`,
`C04_live_eq_cache` and `C04_after_cache_all` —, so for `at_ = .none` both sentences are those theorems'.  What is missing for the full
statements is exactly the complement of `S1Class` / `S6Class` (not proved: the findings are the counter-examples, and no theorem here
covers `.before` / `.after` outside the two classes). -/
theorem updateRoundReentrant_none_partial (c : Cache) (b : Browser) (now : Ms) (recs : List Rec) :
    (updateRoundReentrant lower possible .none c b now recs).map (fun o => (o.1, o.2.1, o.2.2.map Prod.fst))
      = (Browser.onDatagram lower possible c b now recs).map (fun o => (o.cache, o.browser, o.callbacks)) := by
  unfold updateRoundReentrant Browser.onDatagram Zc.ingest ingestFinish ingestFinishWith keptRemoves
  simp only []
  by_cases hu : (ingestPre lower (Cache.ops lower) c now recs).updates.isEmpty = true
  · simp only [hu, if_true]
    cases removeAll (Cache.ops lower) _ _ <;> simp [bind, Except.bind, Except.map, pure, Except.pure]
  · simp only [hu, Bool.false_eq_true, if_false]
    cases removeAll (Cache.ops lower) _ _ <;> simp [bind, Except.bind, Except.map, pure, Except.pure, List.map_map, Function.comp_def]

end
end Zc
