import Zc.Model.Dns
/-! # C20 — record identity

Equal records hash equal; case, TTL, creation time and the cache-flush bit are ignored;
records of different kinds are never equal; questions are identified by
case-insensitive name, type and class.

`Rec.beq`/`Rec.hashKey` are defined from the field lists *generated* from `_dns.py`, and
`str.lower` is an arbitrary function `lower`, so the theorems hold for whatever case
folding Python implements. -/
namespace Zc
open Zc.Gen.Ident

variable (lower : String → String)

/-- Two records are the same record exactly when they are of the same kind and owner
name (case-insensitively), type, class and rdata (PTR target / SRV host case-insensitively,
IPv6 scope included) are equal. -/
theorem C20_eq_iff (a b : Rec) :
    a.beq lower b = true ↔ a.rdata.kind = b.rdata.kind ∧ a.specIdent lower = b.specIdent lower := by
  obtain ⟨an, at_, ac, au, attl, acr, ard⟩ := a
  obtain ⟨bn, bt, bc, bu, bttl, bcr, brd⟩ := b
  cases ard <;> cases brd <;>
    simp [Rec.beq, RData.kind, Kind.eqFields, addressEq, hinfoEq, pointerEq, textEq, serviceEq, nsecEq,
      Rec.field, Rec.specIdent, RData.ident] <;> grind

/-- equal records always have equal hashes (the hashed tuples are equal) -/
theorem C20_hash (a b : Rec) (h : a.beq lower b = true) : a.hashKey lower = b.hashKey lower := by
  obtain ⟨an, at_, ac, au, attl, acr, ard⟩ := a
  obtain ⟨bn, bt, bc, bu, bttl, bcr, brd⟩ := b
  cases ard <;> cases brd <;>
    simp_all [Rec.beq, Rec.hashKey, RData.kind, Kind.eqFields, Kind.hashFields, addressEq, hinfoEq, pointerEq, textEq,
      serviceEq, nsecEq, addressHash, hinfoHash, pointerHash, textHash, serviceHash, nsecHash, Rec.field]

/-- records of different kinds are never equal -/
theorem C20_kinds_disjoint (a b : Rec) (h : a.rdata.kind ≠ b.rdata.kind) : a.beq lower b = false := by
  simp [Rec.beq, h]

/-- TTL, creation time and the cache-flush bit never affect identity -/
theorem C20_ignores_ttl_created_unique (a b : Rec) (ttl : Nat) (created : Ms) (unique : Bool) :
    a.beq lower { b with ttl := ttl, created := created, unique := unique } = a.beq lower b
    ∧ ({ a with ttl := ttl, created := created, unique := unique } : Rec).beq lower b = a.beq lower b := by
  have h1 := C20_eq_iff lower a { b with ttl := ttl, created := created, unique := unique }
  have h2 := C20_eq_iff lower a b
  have h3 := C20_eq_iff lower { a with ttl := ttl, created := created, unique := unique } b
  simp only [Rec.specIdent] at h1 h2 h3
  constructor
  · rw [Bool.eq_iff_iff, h1, h2]
  · rw [Bool.eq_iff_iff, h3, h2]

/-- ... nor the hash -/
theorem C20_hash_ignores (a : Rec) (ttl : Nat) (created : Ms) (unique : Bool) :
    ({ a with ttl := ttl, created := created, unique := unique } : Rec).hashKey lower = a.hashKey lower := by
  obtain ⟨an, at_, ac, au, attl, acr, ard⟩ := a
  cases ard <;>
    simp [Rec.hashKey, RData.kind, Kind.hashFields, addressHash, hinfoHash, pointerHash, textHash, serviceHash, nsecHash, Rec.field]

/-- identity is an equivalence relation (what `dict`/`set` need) -/
theorem C20_equivalence :
    (∀ a : Rec, a.beq lower a = true)
    ∧ (∀ a b : Rec, a.beq lower b = true → b.beq lower a = true)
    ∧ (∀ a b c : Rec, a.beq lower b = true → b.beq lower c = true → a.beq lower c = true) := by
  refine ⟨fun a => ?_, fun a b h => ?_, fun a b c h1 h2 => ?_⟩
  · rw [C20_eq_iff]; exact ⟨rfl, rfl⟩
  · rw [C20_eq_iff] at h ⊢; exact ⟨h.1.symm, h.2.symm⟩
  · rw [C20_eq_iff] at h1 h2 ⊢; exact ⟨h1.1.trans h2.1, h1.2.trans h2.2⟩

/-- questions are identified by case-insensitive name, type and class -/
theorem C20_question (p q : Question) :
    p.beq lower q = true ↔ p.specIdent lower = q.specIdent lower := by
  simp [Question.beq, questionEq, Question.field, Question.specIdent]

theorem C20_question_hash (p q : Question) (h : p.beq lower q = true) : p.hashKey lower = q.hashKey lower := by
  simp_all [Question.beq, Question.hashKey, questionEq, questionHash, Question.field]

/-- Known-answer suppression (`DNSRRSet.suppresses`) looks the record up by identity:
with the dict modelled as "first stored record equal to the probe, last write wins"
the answer depends only on identity and the two TTLs. -/
def rrsetLookup (rs : List Rec) (r : Rec) : Option Rec :=
  -- `{record: record for record in records}`: the value kept for a key is the *last* equal record
  rs.reverse.find? (fun o => o.beq lower r)

def rrsetSuppresses (rs : List Rec) (r : Rec) : Bool :=
  match rrsetLookup lower rs r with
  | none => false
  | some o => Gen.Dns.rrset_suppresses_ttl r.ttl o.ttl

theorem C20_rrset (rs : List Rec) (r : Rec) :
    rrsetSuppresses lower rs r = true →
      ∃ o ∈ rs, o.rdata.kind = r.rdata.kind ∧ o.specIdent lower = r.specIdent lower ∧ r.ttl < 2 * o.ttl := by
  unfold rrsetSuppresses rrsetLookup
  cases hf : rs.reverse.find? (fun o => o.beq lower r) with
  | none => simp
  | some o =>
    intro h
    have hm := List.mem_of_find?_eq_some hf
    have hp := List.find?_some hf
    rw [C20_eq_iff] at hp
    refine ⟨o, by simpa using hm, hp.1, hp.2, ?_⟩
    simp [Gen.Dns.rrset_suppresses_ttl] at h
    omega

theorem C20_rrset_none (rs : List Rec) (r : Rec)
    (h : ∀ o ∈ rs, ¬ (o.rdata.kind = r.rdata.kind ∧ o.specIdent lower = r.specIdent lower)) :
    rrsetSuppresses lower rs r = false := by
  unfold rrsetSuppresses rrsetLookup
  cases hf : rs.reverse.find? (fun o => o.beq lower r) with
  | none => rfl
  | some o =>
    have hm := List.mem_of_find?_eq_some hf
    have hp := List.find?_some hf
    rw [C20_eq_iff] at hp
    exact absurd hp (h o (by simpa using hm))

/-! non-vacuity: concrete records that differ only in TTL / creation time / flush bit are equal,
and a differing rdata field separates them (with `lower := id`; the case-folding instance is
exercised by the correspondence check) -/
example :
    (⟨"foo._http._tcp.local.", 33, 1, true, 120, 5, .srv 0 0 80 "host.local."⟩ : Rec).beq id
      ⟨"foo._http._tcp.local.", 33, 1, false, 7, 99, .srv 0 0 80 "host.local."⟩ = true :=
  (C20_eq_iff id _ _).mpr ⟨rfl, rfl⟩
example :
    (⟨"foo._http._tcp.local.", 33, 1, true, 120, 5, .srv 0 0 80 "host.local."⟩ : Rec).beq id
      ⟨"foo._http._tcp.local.", 33, 1, true, 120, 5, .srv 0 0 81 "host.local."⟩ = false := by
  rw [Bool.eq_false_iff, Ne, C20_eq_iff]; simp [Rec.specIdent, RData.ident]

end Zc
