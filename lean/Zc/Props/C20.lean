import Zc.Model.Dns
import Zc.Proofs.DnsCase
import Zc.GenFacts.FnDns
/-! # C20 — record identity

Equal records hash equal; case, TTL, creation time and the cache-flush bit are ignored;
records of different kinds are never equal; questions are identified by
case-insensitive name, type and class.

`Rec.beq`/`Rec.hashKey` are defined from the field lists *generated* from `_dns.py`, and
`str.lower` is an arbitrary function `lower`.  Most theorems therefore say "equal under the code's
own `lower`" and hold for *any* `lower`, including `id` — they do **not** by themselves say that
case is ignored.  The case clause is `C20_case_ignored` (records, PTR target, SRV host),
`C20_question_case_ignored`: for every `lower` that identifies the case variants produced by some
`upper` (`IdentifiesCase lower upper : ∀ s, lower (upper s) = lower s`), re-spelling with `upper`
changes neither identity nor hash; `asciiLower`/`asciiUpper` satisfy the hypothesis
(`asciiLower_identifies_ascii_case`).  That Python's `str.lower` identifies the case variants that
matter (ASCII, `K` U+212A / `k`, `É`/`é`, `ẞ`/`ß`, `İ`/`i̇`) and nothing else (`ß`/`ss`, `ſ`/`s`,
a missing trailing dot, white space, NFC/NFD) is decided on the real code by the harness, whose
oracle and driver lines fold with a hand-written table, not with `str.lower`.
Reading: "case-insensitively" = equality after Unicode lower-casing, not ASCII-only folding (which
RFC 6762 §16 would suggest) and not `casefold()`. -/
namespace Zc
open Zc.Gen.Ident

variable (lower : String → String)

/-- Two records are the same record exactly when they are of the same kind and owner
name (case-insensitively), type, class and rdata (PTR target / SRV host case-insensitively,
IPv6 scope included) are equal. -/
theorem C20_eq_iff (a b : Rec) :
    a.beq lower b = true ↔ a.rdata.kind = b.rdata.kind ∧ a.specIdent lower = b.specIdent lower := by
  obtain ⟨an, at_, ac, au, attl, acr, ard⟩ := a
  obtain ⟨bn, bt, bc, bu, bttl, bcr, brd⟩ := b
  cases ard <;> cases brd <;>
    simp [Rec.beq, RData.kind, Kind.eqFields, addressEq, hinfoEq, pointerEq, textEq, serviceEq, nsecEq,
      Rec.field, Rec.specIdent, RData.ident] <;> grind

/-- equal records always have equal hashes (the hashed tuples are equal) -/
theorem C20_hash (a b : Rec) (h : a.beq lower b = true) : a.hashKey lower = b.hashKey lower := by
  obtain ⟨an, at_, ac, au, attl, acr, ard⟩ := a
  obtain ⟨bn, bt, bc, bu, bttl, bcr, brd⟩ := b
  cases ard <;> cases brd <;>
    simp_all [Rec.beq, Rec.hashKey, RData.kind, Kind.eqFields, Kind.hashFields, addressEq, hinfoEq, pointerEq, textEq,
      serviceEq, nsecEq, addressHash, hinfoHash, pointerHash, textHash, serviceHash, nsecHash, Rec.field]

/-- records of different kinds are never equal -/
theorem C20_kinds_disjoint (a b : Rec) (h : a.rdata.kind ≠ b.rdata.kind) : a.beq lower b = false := by
  simp [Rec.beq, h]

/-- TTL, creation time and the cache-flush bit never affect identity -/
theorem C20_ignores_ttl_created_unique (a b : Rec) (ttl : Nat) (created : Ms) (unique : Bool) :
    a.beq lower { b with ttl := ttl, created := created, unique := unique } = a.beq lower b
    ∧ ({ a with ttl := ttl, created := created, unique := unique } : Rec).beq lower b = a.beq lower b := by
  have h1 := C20_eq_iff lower a { b with ttl := ttl, created := created, unique := unique }
  have h2 := C20_eq_iff lower a b
  have h3 := C20_eq_iff lower { a with ttl := ttl, created := created, unique := unique } b
  simp only [Rec.specIdent] at h1 h2 h3
  constructor
  · rw [Bool.eq_iff_iff, h1, h2]
  · rw [Bool.eq_iff_iff, h3, h2]

/-- ... nor the hash -/
theorem C20_hash_ignores (a : Rec) (ttl : Nat) (created : Ms) (unique : Bool) :
    ({ a with ttl := ttl, created := created, unique := unique } : Rec).hashKey lower = a.hashKey lower := by
  obtain ⟨an, at_, ac, au, attl, acr, ard⟩ := a
  cases ard <;>
    simp [Rec.hashKey, RData.kind, Kind.hashFields, addressHash, hinfoHash, pointerHash, textHash, serviceHash, nsecHash, Rec.field]

/-! ### the cache-flush / QU bit of the *constructor's* class argument

The bit is kept out of identity by `DNSEntry._set_class` alone (generated leaves `class_of`,
`unique_of`); `Rec.normCtor` is that step.  The number 32768 = 2¹⁵ below is the property's
("the top bit of the 16-bit class"), not read from the generated file. -/

theorem class_of_eq_mod (c : Nat) : Gen.Dns.class_of c = c % 32768 := by
  have := Nat.and_two_pow_sub_one_eq_mod c 15
  simpa [Gen.Dns.class_of] using this

/-- records built from raw classes are the same record iff kind, owner name, type, the class
**modulo the top bit**, and rdata agree -/
theorem C20_ctor_eq_iff (a b : Rec) :
    a.normCtor.beq lower b.normCtor = true ↔
      a.rdata.kind = b.rdata.kind ∧ lower a.name = lower b.name ∧ a.type = b.type ∧
        a.class_ % 32768 = b.class_ % 32768 ∧ a.rdata.ident lower = b.rdata.ident lower := by
  rw [C20_eq_iff]
  simp only [Rec.normCtor, Rec.specIdent, class_of_eq_mod, Prod.mk.injEq]

/-- **the cache-flush bit never affects identity**: setting the top bit of the class a record is built with
changes neither equality nor the hash -/
theorem C20_flush_bit_ignored (a b : Rec) :
    ({ a with class_ := a.class_ + 32768 } : Rec).normCtor.beq lower b.normCtor = a.normCtor.beq lower b.normCtor
    ∧ ({ a with class_ := a.class_ + 32768 } : Rec).normCtor.hashKey lower = a.normCtor.hashKey lower := by
  have hm : (a.class_ + 32768) % 32768 = a.class_ % 32768 := by omega
  constructor
  · rw [Bool.eq_iff_iff, C20_ctor_eq_iff, C20_ctor_eq_iff]; simp only [hm]
  · have e : ({ a with class_ := a.class_ + 32768 } : Rec).normCtor =
        { a.normCtor with unique := Gen.Dns.unique_of (a.class_ + 32768) } := by
      simp only [Rec.normCtor, class_of_eq_mod, hm]
    rw [e]
    exact C20_hash_ignores lower a.normCtor a.normCtor.ttl a.normCtor.created (Gen.Dns.unique_of (a.class_ + 32768))

/-- identity is an equivalence relation (what `dict`/`set` need) -/
theorem C20_equivalence :
    (∀ a : Rec, a.beq lower a = true)
    ∧ (∀ a b : Rec, a.beq lower b = true → b.beq lower a = true)
    ∧ (∀ a b c : Rec, a.beq lower b = true → b.beq lower c = true → a.beq lower c = true) := by
  refine ⟨fun a => ?_, fun a b h => ?_, fun a b c h1 h2 => ?_⟩
  · rw [C20_eq_iff]; exact ⟨rfl, rfl⟩
  · rw [C20_eq_iff] at h ⊢; exact ⟨h.1.symm, h.2.symm⟩
  · rw [C20_eq_iff] at h1 h2 ⊢; exact ⟨h1.1.trans h2.1, h1.2.trans h2.2⟩

/-- questions are identified by case-insensitive name, type and class -/
theorem C20_question (p q : Question) :
    p.beq lower q = true ↔ p.specIdent lower = q.specIdent lower := by
  simp [Question.beq, questionEq, Question.field, Question.specIdent]

theorem C20_question_hash (p q : Question) (h : p.beq lower q = true) : p.hashKey lower = q.hashKey lower := by
  simp_all [Question.beq, Question.hashKey, questionEq, questionHash, Question.field]

/-- the QU bit of a question likewise -/
theorem C20_question_ctor (p q : Question) :
    p.normCtor.beq lower q.normCtor = true ↔
      lower p.name = lower q.name ∧ p.type = q.type ∧ p.class_ % 32768 = q.class_ % 32768 := by
  rw [C20_question]
  simp only [Question.normCtor, Question.specIdent, class_of_eq_mod, Prod.mk.injEq]

/-- known-answer suppression on the `add_answer` / `suppressed_by` path: a known answer suppresses a record exactly
when it is the same record and carries more than half of its TTL -/
theorem C20_suppressed_by_answer_iff (a b : Rec) :
    a.suppressedByAnswer lower b = true ↔
      a.rdata.kind = b.rdata.kind ∧ a.specIdent lower = b.specIdent lower ∧ a.ttl < 2 * b.ttl := by
  simp only [Rec.suppressedByAnswer, Bool.and_eq_true, C20_eq_iff, Gen.Dns.suppressed_by_answer_ttl, decide_eq_true_eq]
  constructor
  · rintro ⟨⟨h1, h2⟩, h3⟩; exact ⟨h1, h2, by omega⟩
  · rintro ⟨h1, h2, h3⟩; exact ⟨⟨h1, h2⟩, by omega⟩

/-! Known-answer suppression (`DNSRRSet.suppresses`, model `rrsetLookup` / `rrsetSuppresses` in
`Model/Dns`, replayed against the real class by the driver command `c20s`) looks the record up by
identity: the answer depends only on identity and the two TTLs. -/

/-- which stored record the look-up finds: the **last** one identical to the probe -/
theorem C20_rrset_lookup (rs : List Rec) (r o : Rec) :
    rrsetLookup lower rs r = some o ↔
      ∃ pre post, rs = pre ++ o :: post ∧ o.beq lower r = true ∧ ∀ x ∈ post, x.beq lower r = false := by
  unfold rrsetLookup
  rw [List.find?_eq_some_iff_append]
  constructor
  · rintro ⟨ho, as, bs, hrev, hno⟩
    refine ⟨bs.reverse, as.reverse, ?_, ho, ?_⟩
    · have := congrArg List.reverse hrev
      simpa using this
    · intro x hx
      have := hno x (by simpa using hx)
      simpa using this
  · rintro ⟨pre, post, rfl, ho, hno⟩
    refine ⟨ho, post.reverse, pre.reverse, by simp, ?_⟩
    intro x hx
    have := hno x (by simpa using hx)
    simp [this]

/-- suppression, exactly: some stored record is the same record, and the **last** such one has more
than half the probe's TTL -/
theorem C20_rrset_iff (rs : List Rec) (r : Rec) :
    rrsetSuppresses lower rs r = true ↔
      ∃ pre o post, rs = pre ++ o :: post ∧ o.rdata.kind = r.rdata.kind ∧ o.specIdent lower = r.specIdent lower ∧
        (∀ x ∈ post, ¬ (x.rdata.kind = r.rdata.kind ∧ x.specIdent lower = r.specIdent lower)) ∧ r.ttl < 2 * o.ttl := by
  unfold rrsetSuppresses
  constructor
  · intro h
    cases hl : rrsetLookup lower rs r with
    | none => simp [hl] at h
    | some o =>
      simp only [hl] at h
      obtain ⟨pre, post, hrs, ho, hno⟩ := (C20_rrset_lookup lower rs r o).mp hl
      rw [C20_eq_iff] at ho
      refine ⟨pre, o, post, hrs, ho.1, ho.2, ?_, ?_⟩
      · intro x hx hxx
        have := hno x hx
        rw [Bool.eq_false_iff, Ne, C20_eq_iff] at this
        exact this hxx
      · simp [Gen.Dns.rrset_suppresses_ttl] at h; omega
  · rintro ⟨pre, o, post, hrs, hk, hs, hno, httl⟩
    have hl : rrsetLookup lower rs r = some o := by
      rw [C20_rrset_lookup]
      refine ⟨pre, post, hrs, (C20_eq_iff lower o r).mpr ⟨hk, hs⟩, ?_⟩
      intro x hx
      rw [Bool.eq_false_iff, Ne, C20_eq_iff]
      exact hno x hx
    simp only [hl, Gen.Dns.rrset_suppresses_ttl]
    simp; omega

theorem C20_rrset (rs : List Rec) (r : Rec) :
    rrsetSuppresses lower rs r = true →
      ∃ o ∈ rs, o.rdata.kind = r.rdata.kind ∧ o.specIdent lower = r.specIdent lower ∧ r.ttl < 2 * o.ttl := by
  unfold rrsetSuppresses rrsetLookup
  cases hf : rs.reverse.find? (fun o => o.beq lower r) with
  | none => simp
  | some o =>
    intro h
    have hm := List.mem_of_find?_eq_some hf
    have hp := List.find?_some hf
    rw [C20_eq_iff] at hp
    refine ⟨o, by simpa using hm, hp.1, hp.2, ?_⟩
    simp [Gen.Dns.rrset_suppresses_ttl] at h
    omega

theorem C20_rrset_none (rs : List Rec) (r : Rec)
    (h : ∀ o ∈ rs, ¬ (o.rdata.kind = r.rdata.kind ∧ o.specIdent lower = r.specIdent lower)) :
    rrsetSuppresses lower rs r = false := by
  unfold rrsetSuppresses rrsetLookup
  cases hf : rs.reverse.find? (fun o => o.beq lower r) with
  | none => rfl
  | some o =>
    have hm := List.mem_of_find?_eq_some hf
    have hp := List.find?_some hf
    rw [C20_eq_iff] at hp
    exact absurd hp (h o (by simpa using hm))

/-! ### "case-insensitively"

Everything above is for an arbitrary `lower`.  The clause itself needs a `lower` that identifies case variants. -/

/-- `lower` identifies the case variants that `upper` produces -/
def IdentifiesCase (lower upper : String → String) : Prop := ∀ s, lower (upper s) = lower s

/-- the hypothesis is satisfiable: ASCII lowering identifies what ASCII upper-casing produces … -/
theorem asciiLower_identifies_ascii_case : IdentifiesCase asciiLower asciiUpper := asciiLower_asciiUpper

/-- … and it is a real hypothesis: the identity function does not -/
example : ¬ IdentifiesCase id asciiUpper := fun h => by
  have e : (asciiUpper "a").toList = "a".toList := congrArg String.toList (h "a")
  rw [asciiUpper, String.toList_map] at e
  exact absurd e (by decide)

/-- **Case of ASCII letters is ignored**: re-spelling the owner name, a PTR record's target or an SRV record's target host
with an `upper` whose variants `lower` identifies yields the same record with the same hash.

Read this for what it is: a corollary of `C20_eq_iff` and the hypothesis.  The hypothesis `IdentifiesCase lower upper` holds
for ASCII lowering / upper-casing (`asciiLower_identifies_ascii_case`, the only witness) and is **false** for Python's own pair
`str.lower` / `str.upper` (`'ß'.upper().lower() == 'ss'`, `'ı'.upper().lower() == 'i'`, `'ſ'.upper().lower() == 's'`).  So the
proved clause is "case of ASCII letters is ignored"; for every other letter identity simply follows `str.lower` (`C20_eq_iff`
with `lower := str.lower`), and *which* spellings that merges (K/k, É/é, ẞ/ß, İ) or keeps apart (ß/ss, ſ/s, ı/i, NFC/NFD) is
decided on the real code by the harness's hand-written folding table, not by a theorem. -/
theorem C20_case_ignored (upper : String → String) (h : IdentifiesCase lower upper) (a : Rec) :
    (({ a with name := upper a.name } : Rec).beq lower a = true
      ∧ ({ a with name := upper a.name } : Rec).hashKey lower = a.hashKey lower)
    ∧ (∀ t, a.rdata = .ptr t →
        ({ a with rdata := .ptr (upper t) } : Rec).beq lower a = true
        ∧ ({ a with rdata := .ptr (upper t) } : Rec).hashKey lower = a.hashKey lower)
    ∧ (∀ p w q s, a.rdata = .srv p w q s →
        ({ a with rdata := .srv p w q (upper s) } : Rec).beq lower a = true
        ∧ ({ a with rdata := .srv p w q (upper s) } : Rec).hashKey lower = a.hashKey lower) := by
  refine ⟨?_, ?_, ?_⟩
  · have e : ({ a with name := upper a.name } : Rec).beq lower a = true := by
      rw [C20_eq_iff]; exact ⟨rfl, by simp [Rec.specIdent, h a.name]⟩
    exact ⟨e, C20_hash lower _ _ e⟩
  · intro t ht
    have e : ({ a with rdata := .ptr (upper t) } : Rec).beq lower a = true := by
      rw [C20_eq_iff]; simp [Rec.specIdent, RData.ident, RData.kind, ht, h t]
    exact ⟨e, C20_hash lower _ _ e⟩
  · intro p w q s hs
    have e : ({ a with rdata := .srv p w q (upper s) } : Rec).beq lower a = true := by
      rw [C20_eq_iff]; simp [Rec.specIdent, RData.ident, RData.kind, hs, h s]
    exact ⟨e, C20_hash lower _ _ e⟩

/-- the same, from raw constructor arguments (flush bit included) -/
theorem C20_ctor_case_ignored (upper : String → String) (h : IdentifiesCase lower upper) (a : Rec) :
    ({ a with name := upper a.name } : Rec).normCtor.beq lower a.normCtor = true := by
  rw [C20_ctor_eq_iff]; exact ⟨rfl, h a.name, rfl, rfl, rfl⟩

/-- questions: the name is compared case-insensitively -/
theorem C20_question_case_ignored (upper : String → String) (h : IdentifiesCase lower upper) (q : Question) :
    ({ q with name := upper q.name } : Question).beq lower q = true
    ∧ ({ q with name := upper q.name } : Question).hashKey lower = q.hashKey lower := by
  have e : ({ q with name := upper q.name } : Question).beq lower q = true := by
    rw [C20_question]; simp [Question.specIdent, h q.name]
  exact ⟨e, C20_question_hash lower _ _ e⟩

/-- conversely nothing but `lower` is applied to names: spellings that `lower` keeps apart are different records
(so a missing trailing dot, white space or another normalisation form is not "case") -/
theorem C20_names_apart (a b : Rec) (h : lower a.name ≠ lower b.name) : a.beq lower b = false := by
  rw [Bool.eq_false_iff, Ne, C20_eq_iff]
  rintro ⟨_, hs⟩
  exact h (by simpa [Rec.specIdent] using congrArg Prod.fst hs)

/-! ### known-answer suppression by a whole message, duplicate removal in replies -/

/-- `DNSRecord.suppressed_by(msg)`: the record is suppressed exactly when **some** answer of the message — not only the
first — is the same record and carries more than half of its TTL -/
theorem C20_suppressed_by_iff (a : Rec) (answers : List Rec) :
    a.suppressedBy lower answers = true ↔
      ∃ o ∈ answers, a.rdata.kind = o.rdata.kind ∧ a.specIdent lower = o.specIdent lower ∧ a.ttl < 2 * o.ttl := by
  simp only [Rec.suppressedBy, List.any_eq_true, C20_suppressed_by_answer_iff]

/-- **Duplicate removal in replies** (`_add_answers_additionals`): whatever order the additional records are taken in,
the additional section (1) consists of given additionals, (2) contains no record that is the same record as an answer,
(3) contains no two records that are the same record, and (4) loses nothing: every given additional is the same record as
an answer or as a record of the additional section. -/
theorem C20_reply_no_duplicates (answers adds : List Rec) :
    let out := replyAdditionals lower answers adds
    (∀ x ∈ out, x ∈ adds)
    ∧ (∀ x ∈ out, ∀ o ∈ answers, o.beq lower x = false)
    ∧ out.Pairwise (fun o x => o.beq lower x = false)
    ∧ (∀ x ∈ adds, (∃ o ∈ answers, o.beq lower x = true) ∨ (∃ o ∈ out, o.beq lower x = true)) := by
  have := replyFold_spec lower answers adds [] (by simp) List.Pairwise.nil
  obtain ⟨r1, _, r3, r4, r5⟩ := this
  refine ⟨fun x hx => ?_, r3, r4, r5⟩
  rcases r1 x hx with h | h
  · exact absurd h (by simp)
  · exact h

/-! ### a reading: NSEC type lists

The rdata of an NSEC record is the constructor's type *list* (sorted by the constructor, not de-duplicated): a list with
a repeated type is another rdata although the bitmap on the wire is the same.  The library never builds such a list (it
passes sets / the decoder's bitmap read-out); the property's "rdata … equal" is read on the constructor arguments. -/
example : (⟨"a.local.", 47, 1, false, 0, 0, .nsec "a.local." [1, 1]⟩ : Rec).beq id ⟨"a.local.", 47, 1, false, 0, 0, .nsec "a.local." [1]⟩ = false := by
  rw [Bool.eq_false_iff, Ne, C20_eq_iff]; simp [Rec.specIdent, RData.ident]

/-! non-vacuity: concrete records that differ only in TTL / creation time / flush bit are equal,
and a differing rdata field separates them (with `lower := id`; the case-folding instance is
exercised by the correspondence check) -/
example :
    (⟨"foo._http._tcp.local.", 33, 1, true, 120, 5, .srv 0 0 80 "host.local."⟩ : Rec).beq id
      ⟨"foo._http._tcp.local.", 33, 1, false, 7, 99, .srv 0 0 80 "host.local."⟩ = true :=
  (C20_eq_iff id _ _).mpr ⟨rfl, rfl⟩
example :
    (⟨"foo._http._tcp.local.", 33, 1, true, 120, 5, .srv 0 0 80 "host.local."⟩ : Rec).beq id
      ⟨"foo._http._tcp.local.", 33, 1, true, 120, 5, .srv 0 0 81 "host.local."⟩ = false := by
  rw [Bool.eq_false_iff, Ne, C20_eq_iff]; simp [Rec.specIdent, RData.ident]

/-- with a folding `lower` (ASCII): the upper-case spelling of the owner name is the same record, same hash -/
example :
    (⟨asciiUpper "foo._http._tcp.local.", 33, 1, true, 120, 5, .srv 0 0 80 "host.local."⟩ : Rec).beq asciiLower
      ⟨"foo._http._tcp.local.", 33, 1, true, 120, 5, .srv 0 0 80 "host.local."⟩ = true :=
  (C20_case_ignored asciiLower asciiUpper asciiLower_identifies_ascii_case
    ⟨"foo._http._tcp.local.", 33, 1, true, 120, 5, .srv 0 0 80 "host.local."⟩).1.1

/-- the flush bit in the constructor's class does not separate records (class 1 vs 0x8001), another class does -/
example :
    (⟨"a.local.", 16, 1, false, 0, 0, .txt []⟩ : Rec).normCtor.beq id (⟨"a.local.", 16, 32769, false, 5, 9, .txt []⟩ : Rec).normCtor = true :=
  (C20_ctor_eq_iff id _ _).mpr ⟨rfl, rfl, rfl, by decide, rfl⟩
example :
    (⟨"a.local.", 16, 1, false, 0, 0, .txt []⟩ : Rec).normCtor.beq id (⟨"a.local.", 16, 257, false, 0, 0, .txt []⟩ : Rec).normCtor = false := by
  rw [Bool.eq_false_iff, Ne, C20_ctor_eq_iff]; decide

/-- suppression uses the *last* identical stored record: TTL 10 then TTL 100 suppresses a probe of TTL 120, the other
order does not -/
example :
    rrsetSuppresses id [⟨"a.local.", 16, 1, false, 10, 0, .txt []⟩, ⟨"a.local.", 16, 1, true, 100, 0, .txt []⟩]
      ⟨"a.local.", 16, 1, false, 120, 0, .txt []⟩ = true := by
  rw [C20_rrset_iff]
  exact ⟨[_], _, [], rfl, rfl, rfl, by simp, by decide⟩
example :
    rrsetSuppresses id [⟨"a.local.", 16, 1, true, 100, 0, .txt []⟩, ⟨"a.local.", 16, 1, false, 10, 0, .txt []⟩]
      ⟨"a.local.", 16, 1, false, 120, 0, .txt []⟩ = false := by
  have hb : (⟨"a.local.", 16, 1, false, 10, 0, .txt []⟩ : Rec).beq id ⟨"a.local.", 16, 1, false, 120, 0, .txt []⟩ = true :=
    (C20_eq_iff id _ _).mpr ⟨rfl, rfl⟩
  simp [rrsetSuppresses, rrsetLookup, List.find?, hb, Gen.Dns.rrset_suppresses_ttl]

/-! ## Tie: `_suppressed_by_answer` / `suppressed_by`, translated statement by statement on every run

`Zc.GenFn.Dns` is regenerated from the method *bodies* of `DNSRecord` (`tools/gen_fn.py`); `GenFacts/FnDns.lean` proves them
equal to the model definitions used above.  So the clause holds of the translated source, with its `self == other` test
(the identity above) and its loop over `msg.answers()`. -/
section Tie
open Zc.GenFn.Dns

/-- the translated `DNSRecord._suppressed_by_answer`: same record and more than half of the TTL -/
theorem C20_suppressed_by_answer_source (a b : Rec) :
    DNSRecord.suppressed_by_answer lower a b = true ↔
      a.rdata.kind = b.rdata.kind ∧ a.specIdent lower = b.specIdent lower ∧ a.ttl < 2 * b.ttl := by
  rw [Zc.GenFacts.FnDns.suppressed_by_answer_eq]
  exact C20_suppressed_by_answer_iff lower a b

/-- the translated `DNSRecord.suppressed_by(msg)`: some answer of the message is the same record with more than half of the TTL -/
theorem C20_suppressed_by_source (r : Rec) (answers : List Rec) :
    DNSRecord.suppressed_by lower r answers = true ↔
      ∃ o ∈ answers, r.rdata.kind = o.rdata.kind ∧ r.specIdent lower = o.specIdent lower ∧ r.ttl < 2 * o.ttl := by
  rw [Zc.GenFacts.FnDns.suppressed_by_eq, List.any_eq_true]
  constructor
  · rintro ⟨o, ho, h⟩; exact ⟨o, ho, (C20_suppressed_by_answer_iff lower r o).1 h⟩
  · rintro ⟨o, ho, h⟩; exact ⟨o, ho, (C20_suppressed_by_answer_iff lower r o).2 h⟩

/-- non-vacuity: a known answer with TTL 61 suppresses a TTL-120 record in another spelling, one with TTL 60 does not -/
example :
    DNSRecord.suppressed_by id ⟨"a.local.", 16, 1, false, 120, 0, .txt [1]⟩
        [⟨"b.local.", 16, 1, false, 4500, 0, .txt [1]⟩, ⟨"a.local.", 16, 1, true, 61, 5, .txt [1]⟩] = true
    ∧ DNSRecord.suppressed_by id ⟨"a.local.", 16, 1, false, 120, 0, .txt [1]⟩ [⟨"a.local.", 16, 1, true, 60, 5, .txt [1]⟩] = false := by
  decide

end Tie

end Zc
