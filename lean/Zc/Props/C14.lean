import Zc.Proofs.Wire.Message
import Zc.Proofs.Wire.Total
import Zc.Model.Wire.Send
import Zc.Proofs.Wire.Lone
import Zc.GenFacts.Send
/-! # C14 — outgoing messages respect size limits and account for every section entry

Every datagram produced by the message builder is at most 8966 bytes, and at most 1460 bytes unless
it carries a single entry; its header counts equal the entries actually present; each question and
record appears in exactly one datagram of the sequence, in order; for queries the TC flag is set on
every datagram except the last, responses never get it.

Same model and same proof stack as C01 (`Zc/Proofs/Wire/*`). -/
namespace Zc
open Zc.Wire Zc.Wire.Encode

theorem decMany_length {α} (p : Nat → Option (α × Nat)) : ∀ (n off : Nat) (l : List α) (e : Nat),
    Strict.decMany p n off = some (l, e) → l.length = n := by
  intro n
  induction n with
  | zero => intro off l e h; simp [Strict.decMany] at h; simp [h.1.symm]
  | succ n ih =>
    intro off l e h
    simp only [Strict.decMany, bind, Option.bind] at h
    cases h1 : p off with
    | none => simp [h1] at h
    | some r1 =>
      obtain ⟨a, o1⟩ := r1
      simp only [h1] at h
      cases h2 : Strict.decMany p n o1 with
      | none => simp [h2] at h
      | some r2 =>
        obtain ⟨rest, o2⟩ := r2
        simp only [h2, pure, Option.some.injEq, Prod.mk.injEq] at h
        obtain ⟨rfl, _⟩ := h
        simp [ih o1 rest o2 h2]

/-- a datagram the strict decoder accepts has header counts equal to the entries present and no
trailing bytes (this is what "well-formed" means here) -/
theorem strict_decode_counts (p : Bytes) (w : WMsg) (h : Strict.decode p = some w) :
    u16At p 4 = some w.questions.length ∧ u16At p 6 = some w.answers.length ∧
    u16At p 8 = some w.authorities.length ∧ u16At p 10 = some w.additionals.length := by
  unfold Strict.decode at h
  simp only [bind, Option.bind] at h
  cases h0 : u16At p 0 with
  | none => simp [h0] at h
  | some id =>
  cases h2 : u16At p 2 with
  | none => simp [h0, h2] at h
  | some fl =>
  cases h4 : u16At p 4 with
  | none => simp [h0, h2, h4] at h
  | some nq =>
  cases h6 : u16At p 6 with
  | none => simp [h0, h2, h4, h6] at h
  | some nan =>
  cases h8 : u16At p 8 with
  | none => simp [h0, h2, h4, h6, h8] at h
  | some nau =>
  cases h10 : u16At p 10 with
  | none => simp [h0, h2, h4, h6, h8, h10] at h
  | some nad =>
  simp only [h0, h2, h4, h6, h8, h10] at h
  cases d1 : Strict.decMany (Strict.decQuestion p) nq 12 with
  | none => simp [d1] at h
  | some r1 =>
  obtain ⟨qs, o1⟩ := r1
  simp only [d1] at h
  cases d2 : Strict.decMany (Strict.decRecord p) nan o1 with
  | none => simp [d2] at h
  | some r2 =>
  obtain ⟨an, o2⟩ := r2
  simp only [d2] at h
  cases d3 : Strict.decMany (Strict.decRecord p) nau o2 with
  | none => simp [d3] at h
  | some r3 =>
  obtain ⟨au, o3⟩ := r3
  simp only [d3] at h
  cases d4 : Strict.decMany (Strict.decRecord p) nad o3 with
  | none => simp [d4] at h
  | some r4 =>
  obtain ⟨ad, o4⟩ := r4
  simp only [d4] at h
  split at h
  · simp only [Option.some.injEq] at h
    subst h
    simp [decMany_length _ _ _ _ _ d1, decMany_length _ _ _ _ _ d2, decMany_length _ _ _ _ _ d3, decMany_length _ _ _ _ _ d4]
  · simp at h

/-- **Sizes.**  No datagram exceeds 8966 bytes; one that exceeds 1460 bytes carries a single entry. -/
theorem C14_sizes (m : Msg) (hwf : WFMsg m) (hfit : FitAll m) (pks : List Bytes) (h : packets m = .ok pks) :
    ∀ p ∈ pks, p.length ≤ 8966 ∧ ∃ w, Strict.decode p = some w ∧ (1460 < p.length → entryCount w = 1) := by
  unfold packets at h
  obtain ⟨msgs, e, _, _, _, _, _, hsz, hone, _, _⟩ := packetsLoop_spec m hwf hfit _ ⟨0, 0, 0, 0⟩ pks
    ⟨Nat.zero_le _, Nat.zero_le _, Nat.zero_le _, Nat.zero_le _⟩ (by simp [remaining]) h
  intro p hp
  have : Strict.decode p ∈ pks.map Strict.decode := List.mem_map_of_mem hp
  rw [e] at this
  simp only [List.mem_map] at this
  obtain ⟨w, _, hw2⟩ := this
  exact ⟨hsz p hp, w, hw2.symm, hone p hp w hw2.symm⟩

/-- **Counts.**  Every datagram is well formed: its four header counts equal the entries present,
nothing trails.  (`strict_decode_counts` is a property of `Strict.decode`'s definition — it reads exactly as many
entries as the header announces; the content of this theorem is that the emitted datagram is *accepted*, which also
means no byte is left over after the last announced entry: `Strict.decode` demands `o4 = pkt.length`.) -/
theorem C14_counts (m : Msg) (hwf : WFMsg m) (hfit : FitAll m) (pks : List Bytes) (h : packets m = .ok pks) :
    ∀ p ∈ pks, ∃ w, Strict.decode p = some w ∧
      u16At p 4 = some w.questions.length ∧ u16At p 6 = some w.answers.length ∧
      u16At p 8 = some w.authorities.length ∧ u16At p 10 = some w.additionals.length := by
  intro p hp
  obtain ⟨_, w, hw, _⟩ := C14_sizes m hwf hfit pks h p hp
  exact ⟨w, hw, strict_decode_counts p w hw⟩

/-- **Partition.**  Each question and record appears in exactly one datagram of the sequence: the
concatenation over the datagrams of each section is that section of the message, in order. -/
theorem C14_partition (m : Msg) (hwf : WFMsg m) (hfit : FitAll m) (pks : List Bytes) (h : packets m = .ok pks) :
    ∃ msgs : List WMsg, pks.map Strict.decode = msgs.map some ∧
      msgs.flatMap (·.questions) = m.questions.map (EQuestion.onWire m.multicast) ∧
      msgs.flatMap (·.answers) = m.answers.map (fun x => x.1.onWire m.multicast x.2) ∧
      msgs.flatMap (·.authorities) = m.authorities.map (fun r => r.onWire m.multicast 0) ∧
      msgs.flatMap (·.additionals) = m.additionals.map (fun r => r.onWire m.multicast 0) := by
  unfold packets at h
  obtain ⟨msgs, e, _, s1, s2, s3, s4, _⟩ := packetsLoop_spec m hwf hfit _ ⟨0, 0, 0, 0⟩ pks
    ⟨Nat.zero_le _, Nat.zero_le _, Nat.zero_le _, Nat.zero_le _⟩ (by simp [remaining]) h
  exact ⟨msgs, e, by simpa using s1, by simpa using s2, by simpa using s3, by simpa using s4⟩

theorem flagsOK_response (m : Msg) (hr : m.flags &&& 32768 ≠ 0) : ∀ msgs, FlagsOK m msgs → ∀ w ∈ msgs, w.flags = m.flags := by
  have hf : ∀ b, pktFlags m b = m.flags := by intro b; simp [pktFlags, hr]
  intro msgs
  induction msgs with
  | nil => intro _ w hw; simp at hw
  | cons a rest ih =>
    intro h w hw
    cases rest with
    | nil => simp only [List.mem_singleton] at hw; subst hw; simpa [FlagsOK, hf] using h
    | cons b rest' =>
      simp only [FlagsOK] at h
      simp only [List.mem_cons] at hw
      rcases hw with rfl | hw
      · rw [h.1, hf]
      · exact ih h.2 w (by simpa using hw)

theorem flagsOK_query (m : Msg) (hq : m.flags &&& 32768 = 0) : ∀ msgs, FlagsOK m msgs →
    (∀ w ∈ msgs.dropLast, w.flags = m.flags ||| 512) ∧ (∀ w, msgs.getLast? = some w → w.flags = m.flags) := by
  have ht : pktFlags m true = m.flags ||| 512 := by simp [pktFlags, hq]
  have hf : pktFlags m false = m.flags := by simp [pktFlags]
  intro msgs
  induction msgs with
  | nil => intro _; simp
  | cons a rest ih =>
    intro h
    cases rest with
    | nil => simp only [FlagsOK] at h; simp [h, hf]
    | cons b rest' =>
      simp only [FlagsOK] at h
      obtain ⟨i1, i2⟩ := ih h.2
      constructor
      · intro w hw
        simp only [List.dropLast_cons_cons, List.mem_cons] at hw
        rcases hw with rfl | hw
        · rw [h.1, ht]
        · exact i1 w (by simpa using hw)
      · intro w hw
        exact i2 w (by simpa [List.getLast?_cons_cons] using hw)

/-- **TC flag.**  For a query the TC flag is or-ed into the flags of every datagram except the last,
which carries the flags as given; a response carries the flags as given on every datagram. -/
theorem C14_tc (m : Msg) (hwf : WFMsg m) (hfit : FitAll m) (pks : List Bytes) (h : packets m = .ok pks) :
    ∃ msgs : List WMsg, pks.map Strict.decode = msgs.map some ∧ msgs ≠ [] ∧
      (m.flags &&& 32768 ≠ 0 → ∀ w ∈ msgs, w.flags = m.flags) ∧
      (m.flags &&& 32768 = 0 → (∀ w ∈ msgs.dropLast, w.flags = m.flags ||| 512) ∧ (∀ w, msgs.getLast? = some w → w.flags = m.flags)) := by
  unfold packets at h
  obtain ⟨msgs, e, ne, _, _, _, _, _, _, _, hfl⟩ := packetsLoop_spec m hwf hfit _ ⟨0, 0, 0, 0⟩ pks
    ⟨Nat.zero_le _, Nat.zero_le _, Nat.zero_le _, Nat.zero_le _⟩ (by simp [remaining]) h
  exact ⟨msgs, e, ne, fun hr => flagsOK_response m hr msgs hfl, fun hq => flagsOK_query m hq msgs hfl⟩

/-- **Degrades into a sequence, always**: for a message inside the quantifier (16-bit flags and id, TXT payloads the
16-bit rdlength can carry) the builder returns datagrams — it cannot stop with an exception — and the sequence is non-empty. -/
theorem C14_total (m : Msg) (hwf : WFMsg m) (hfit : FitAll m) (hf : m.flags < 65536) (hi : m.id < 65536) (ht : TxtOK m) :
    ∃ pks, packets m = .ok pks ∧ pks ≠ [] := by
  obtain ⟨pks, h⟩ := Zc.Survive.packets_total m (hwf.safe hf hi ht)
  obtain ⟨msgs, e, ne, _⟩ := C14_tc m hwf hfit pks h
  refine ⟨pks, h, ?_⟩
  intro hp
  rw [hp] at e
  cases msgs with
  | nil => exact ne rfl
  | cons a t => simp at e

/-- the TC clause as the sentence has it, when the caller's flags do not already carry TC (a TC bit given by the
caller is transmitted as given — a reading; the library's own callers never set it): responses never set TC, and a
query sets it on every datagram except the last -/
theorem C14_tc_bit (m : Msg) (hwf : WFMsg m) (hfit : FitAll m) (pks : List Bytes) (h : packets m = .ok pks)
    (hno : m.flags &&& 512 = 0) :
    ∃ msgs : List WMsg, pks.map Strict.decode = msgs.map some ∧ msgs ≠ [] ∧
      (m.flags &&& 32768 ≠ 0 → ∀ w ∈ msgs, w.flags &&& 512 = 0) ∧
      (m.flags &&& 32768 = 0 → (∀ w ∈ msgs.dropLast, w.flags &&& 512 = 512) ∧ (∀ w, msgs.getLast? = some w → w.flags &&& 512 = 0)) := by
  obtain ⟨msgs, e, ne, hr, hq⟩ := C14_tc m hwf hfit pks h
  refine ⟨msgs, e, ne, ?_, ?_⟩
  · intro h1 w hw; rw [hr h1 w hw]; exact hno
  · intro h1
    obtain ⟨ha, hb⟩ := hq h1
    refine ⟨?_, ?_⟩
    · intro w hw
      rw [ha w hw, Nat.and_or_distrib_right, hno]
      decide
    · intro w hw; rw [hb w hw]; exact hno

/-! ### sizes without any well-formedness hypothesis

`C14_sizes`, `C14_counts`, `C14_partition`, `C14_tc` speak through the strict decoder and therefore carry `WFMsg`, whose
`WFName` bounds a name by 255 wire octets / 253 characters — C01's D21 narrowing, **which C14's own quantifier does not
contain** (recorded as a narrowing of C14 in `known_findings.json` under D21 and in the manifest; the harness judges such
messages with the Python strict decoder that applies no total-length rule).  The two size clauses do not need the decoder and
are proved for **every** message for which the builder returns: -/

/-- **no datagram exceeds 8966 bytes**, whatever the message (names of any length included) -/
theorem C14_size_limit_any (m : Msg) (pks : List Bytes) (h : packets m = .ok pks) : ∀ p ∈ pks, p.length ≤ 8966 :=
  fun p hp => (packetsLoop_lone m _ _ pks h p hp).1

/-- **"… unless it carries a single entry that cannot be smaller".**  A datagram of more than 1460 bytes **is** the 12-byte
header followed by exactly the bytes that one entry `x` of the message takes when it is written alone, at offset 12 with an
empty names table (`LoneBody`: `encQuestion/encRecord mc 12 [] x = .ok (p.drop 12, _)`) — nothing else is in it — and so it
is exactly as long as the smallest datagram that can carry `x` (`LoneSize`: `questionAloneSize` / `recordAloneSize`).  The
statement is about the bytes: *which* entry `x` is, is named by the existential (an entry of `m`); that the strict decoder
reads this datagram back as that one entry is `C14_sizes` (`entryCount w = 1`) + `C14_partition`, for `WFMsg`.  No
well-formedness needed here: the 8966-byte allowance is only ever granted to the first entry tried in a fresh packet. -/
theorem C14_large_is_lone_entry (m : Msg) (pks : List Bytes) (h : packets m = .ok pks) :
    ∀ p ∈ pks, 1460 < p.length → LoneBody m (p.drop 12) ∧ LoneSize m p.length := by
  intro p hp hbig
  rcases (packetsLoop_lone m _ _ pks h p hp).2 with h1 | h1
  · omega
  · refine ⟨h1, ?_⟩
    have := h1.size
    rw [List.length_drop] at this
    rw [show 12 + (p.length - 12) = p.length by omega] at this
    exact this

/-! ### the send path: `Zeroconf.async_send` (anchored mechanism "async_send drops packets above the absolute limit") -/

/-- nothing is dropped when every datagram is at most 8966 bytes long — a datagram of **exactly** 8966 bytes leaves -/
theorem asyncSend_all (pks : List Bytes) (h : ∀ p ∈ pks, p.length ≤ 8966) : Send.asyncSend pks = pks := by
  induction pks with
  | nil => rfl
  | cons p rest ih =>
    have hp : Gen.Send.send_drops p.length = false := by
      cases hd : Gen.Send.send_drops p.length with
      | false => rfl
      | true =>
        have := (GenFacts.Send.send_drops_iff p.length).mp hd
        have := h p (by simp)
        omega
    simp only [Send.asyncSend, hp]
    rw [ih (fun q hq => h q (by simp [hq]))]
    rfl

/-- **Every datagram the builder makes is sent.**  For a message inside the quantifier the size guard of
`Zeroconf.async_send` never fires: the datagrams that leave are exactly the builder's, in order — so "each question and
record appears in exactly one datagram of the sequence" holds of the *transmitted* sequence too (`C14_partition`). -/
theorem C14_send_all (m : Msg) (hwf : WFMsg m) (hfit : FitAll m) (pks : List Bytes) (h : packets m = .ok pks) :
    Send.asyncSend pks = pks :=
  asyncSend_all pks (fun p hp => (C14_sizes m hwf hfit pks h p hp).1)

/-- the guard is exact: a datagram of 8967 bytes is dropped together with everything behind it (the builder never makes
one — `C14_sizes` — so this is the degraded behaviour for entries outside the quantifier only) -/
example (p q : Bytes) (rest : List Bytes) (hp : p.length = 8966) (hq : q.length = 8967) :
    Send.asyncSend (p :: q :: rest) = [p] := by
  have h1 : Gen.Send.send_drops p.length = false := by rw [hp]; decide
  have h2 : Gen.Send.send_drops q.length = true := by rw [hq]; decide
  simp [Send.asyncSend, h1, h2]

/-! ### non-vacuity: messages that really split / really exceed 1460 bytes -/

def exT : WName := [[95, 104], [95, 116], [108]]          -- _h._t.l
def exBlob (n : Nat) (c : UInt8) : Bytes := List.replicate n c

/-- a query whose two 900-byte TXT known answers do not fit one 1460-byte datagram: two datagrams, TC on the first only -/
def exSplit : Msg :=
  { flags := 0, id := 0, multicast := true, questions := [⟨exT, 12, 1, false⟩],
    answers := [(⟨[97] :: exT, 16, 1, true, 4500, 0, .txt (exBlob 900 1)⟩, 0), (⟨[98] :: exT, 16, 1, true, 4500, 0, .txt (exBlob 900 2)⟩, 0)],
    authorities := [], additionals := [] }

example : WFMsg exSplit ∧ FitAll exSplit ∧ TxtOK exSplit :=
  ⟨⟨by decide +kernel, by decide +kernel, by decide +kernel, by decide +kernel⟩,
   ⟨by decide +kernel, by decide +kernel, by decide +kernel, by decide +kernel⟩,
   ⟨by decide +kernel, by decide +kernel, by decide +kernel⟩⟩
example : (packets exSplit).toOption.map (fun pks => pks.map (fun p => (p.length, (Strict.decode p).map (fun w => (w.flags, entryCount w))))) =
    some [(939, some (512, 2)), (933, some (0, 1))] := by decide +kernel

/-- a response with one 5000-byte TXT: a single datagram above 1460 bytes carrying exactly one entry -/
def exBig : Msg :=
  { flags := 0x8400, id := 0, multicast := true, questions := [],
    answers := [(⟨[97] :: exT, 16, 1, true, 4500, 0, .txt (exBlob 5000 1)⟩, 0)], authorities := [], additionals := [] }

example : WFMsg exBig ∧ FitAll exBig :=
  ⟨⟨by decide +kernel, by decide +kernel, by decide +kernel, by decide +kernel⟩,
   ⟨by decide +kernel, by decide +kernel, by decide +kernel, by decide +kernel⟩⟩
example : (packets exBig).toOption.map (fun pks => pks.map (fun p => (decide (1460 < p.length), (Strict.decode p).map (fun w => (w.flags, entryCount w))))) =
    some [(true, some (0x8400, 1))] := by decide +kernel

/-- … and that datagram is exactly as long as the one entry alone (`C14_large_is_lone_entry` observed) -/
example : (packets exBig).toOption.map (fun pks => pks.map List.length) =
    some [recordAloneSize true (⟨[97] :: exT, 16, 1, true, 4500, 0, .txt (exBlob 5000 1)⟩, 0)] := by decide +kernel

/-- a response whose single TXT answer makes a datagram of **exactly 8966 bytes** (12 header + 11 owner name + 10 fixed +
8933 rdata) followed by a small second answer: two datagrams, both leave `async_send` -/
def exLimit : Msg :=
  { flags := 0x8400, id := 0, multicast := true, questions := [],
    answers := [(⟨[97] :: exT, 16, 1, true, 4500, 0, .txt (exBlob 8933 1)⟩, 0), (⟨[98] :: exT, 1, 1, true, 120, 0, .addr [10, 0, 0, 7]⟩, 0)],
    authorities := [], additionals := [] }

example : WFMsg exLimit ∧ FitAll exLimit :=
  ⟨⟨by decide +kernel, by decide +kernel, by decide +kernel, by decide +kernel⟩,
   ⟨by decide +kernel, by decide +kernel, by decide +kernel, by decide +kernel⟩⟩
example : (packets exLimit).toOption.map (fun pks => (pks.map List.length, (Send.asyncSend pks).map List.length)) =
    some ([8966, 37], [8966, 37]) := by decide +kernel

end Zc
